// sysrun: checks that need the runtime around the storage core.
//
//	-mode c07  fault enumeration: every storage step of every write operation fails in turn
//	           (interposing database/sql driver); aborted / panicking / cancelled transaction bodies;
//	           read-only handles
//	-mode c08  concurrent callers on one handle and concurrent clients on one server
//	-mode c09  process death at every storage step, SIGKILL of the server under load, close/re-open
//	-mode c20  background reclamation of expired keys
package main

import (
	"context"
	"encoding/json"
	"errors"
	"flag"
	"fmt"
	"os"
	"path/filepath"
	"reflect"
	"strings"
	"time"

	"github.com/nalgeon/redka"
	"verif/harness/hx"
)

type Summary struct {
	Mode     string         `json:"mode"`
	Seed     int64          `json:"seed"`
	Cases    int            `json:"evaluations"`
	Distinct int            `json:"distinct_nontrivial"`
	Counters map[string]int `json:"counters"`
	Failures []Failure      `json:"failures"`
	Samples  []string       `json:"samples"`
	Known    []string       `json:"known_finding_lines"`
	WallS    float64        `json:"wall_s"`
}

type Failure struct {
	Kind   string `json:"kind"`
	Replay string `json:"replay"`
	Detail string `json:"detail"`
}

var (
	sum    Summary
	outDir string
	seen   = map[string]bool{}
	known  = map[string]int{}
)

// listedKnown: the findings the committed file lists (a deviation whose name is not listed is a violation)
var listedKnown = map[string]bool{}

func fail(kind, detail string, extra any) {
	if len(sum.Failures) >= 6 {
		return
	}
	_ = os.MkdirAll(outDir, 0o755)
	path := filepath.Join(outDir, fmt.Sprintf("sys-%s-seed%d-%d.json", sum.Mode, sum.Seed, len(sum.Failures)))
	b, _ := json.MarshalIndent(map[string]any{"mode": sum.Mode, "seed": sum.Seed, "kind": kind, "detail": detail, "case": extra,
		"rerun": fmt.Sprintf("/verif/build/sysrun -mode %s -seed %d", sum.Mode, sum.Seed)}, "", " ")
	_ = os.WriteFile(path, b, 0o644)
	sum.Failures = append(sum.Failures, Failure{Kind: kind, Replay: path, Detail: detail})
}

func count(k string) { sum.Counters[k]++ }

func distinct(key string) {
	if !seen[key] {
		seen[key] = true
		sum.Distinct++
	}
}

func main() {
	mode := flag.String("mode", "c07", "c07 | c08 | c09 | c20")
	seed := flag.Int64("seed", 1, "PRNG seed")
	n := flag.Int("n", 60, "size of the run (cases / rounds)")
	long := flag.Bool("long", false, "thorough tier: long observations")
	child := flag.String("child", "", "internal: crash-run child (database path)")
	childSeed := flag.Int64("childseed", 0, "internal")
	childExit := flag.Int64("childexit", 0, "internal: exit at this storage step")
	childPost := flag.Bool("childpost", false, "internal: exit after the step")
	childWl := flag.Int("childwl", 0, "internal: workload number")
	knownPath := flag.String("known", "/verif/KNOWN_FINDINGS.jsonl", "known findings file")
	childOpen := flag.Bool("childopen", false, "internal: count (and crash at) the storage steps of Open itself")
	childBig := flag.Bool("childbig", false, "internal: die inside one large uncommitted transaction")
	flag.StringVar(&outDir, "out", "/verif/replays", "replay directory")
	flag.Parse()
	listedKnown = hx.KnownNames(*knownPath)
	if *child != "" && *childBig {
		crashChildBig(*child)
	}
	if *child != "" {
		crashChild(*child, *childSeed, *childWl, *childExit, *childPost, *childOpen)
		return
	}
	start := time.Now()
	sum = Summary{Mode: *mode, Seed: *seed, Counters: map[string]int{}}
	switch *mode {
	case "c07":
		runC07(*seed, *n)
	case "c08":
		runC08(*seed, *n, *long)
	case "c08shape": // (a part of c08 on its own)
		runC08TraceShapes(*seed)
	case "c09":
		runC09(*seed, *n, *long)
	case "c20":
		runC20(*seed, *n, *long)
	case "c10":
		runC10Boundary(*seed, *n)
	default:
		fmt.Fprintln(os.Stderr, "unknown mode")
		os.Exit(2)
	}
	for k, c := range known {
		sum.Known = append(sum.Known, fmt.Sprintf("KNOWN-FINDING: %s (met %d times)", k, c))
	}
	sum.WallS = time.Since(start).Seconds()
	enc := json.NewEncoder(os.Stdout)
	enc.SetIndent("", " ")
	_ = enc.Encode(sum)
	if len(sum.Failures) > 0 {
		os.Exit(1)
	}
}

// ---------- C07 ----------

func stepText(st *hx.Step) string {
	var parts []string
	for _, op := range st.Ops {
		parts = append(parts, op.Tok)
	}
	pre := ""
	if st.Block {
		pre = fmt.Sprintf("TX(stop=%v) ", st.StopOnErr)
	}
	return pre + strings.Join(parts, " ; ")
}

// runStepRaw executes one step and returns whether any call reported an error.
func runStepRaw(x *hx.Exec, st *hx.Step) (gotErr bool, res string) {
	defer func() {
		if r := recover(); r != nil {
			// the library panicked (e.g. under an injected fault): never acceptable
			fail("panic", fmt.Sprintf("[%s] panicked instead of reporting an error: %v (storage steps so far: %s)", stepText(st), r, strings.Join(hx.Plan.Trace, ",")), nil)
			gotErr, res = true, "harness: panic"
		}
	}()
	tr, err := x.RunStep(st)
	if err != nil {
		return true, "harness: " + err.Error()
	}
	return strings.Contains(tr.R, "err "), tr.R
}

func isWrite(st *hx.Step) bool {
	for _, op := range st.Ops {
		if op.Write {
			return true
		}
	}
	return false
}

func runC07(seed int64, n int) {
	// first of all the shape of every writing call: one statement or one transaction
	traceShapes(seed, "c07-not-atomic", true)
	if len(sum.Failures) > 0 {
		return
	}
	covered := map[string]int{}
	// the operation under test: a write step (single operation at DB level, or a caller-managed
	// transaction that stops at the first error); everything before it builds the pre-state.
	// (a transaction body that ignores its operations' errors and commits is not given
	// storage faults: swallowing an I/O error and committing is outside the property)
	// (of each kind, occurrences that change the database in their pre-state come first: a fault
	// in an operation that has nothing to do shows nothing)
	cases := opCasesWhere(seed, n, allFamilies, func(p *hx.Profile) { p.MinSteps, p.MaxSteps = 6, 30 },
		func(st *hx.Step) bool { return isWrite(st) && !(st.Block && !st.StopOnErr) }, covered, changesDatabase)
	coverageCounters("target_", covered)
	cases = append(cases, bigCases()...)
	for _, c := range cases {
		if changesDatabase(c) {
			count("effectful_" + c.Kind)
		}
	}
	g := hx.NewGen(seed, hx.Profiles["mixed"])
	for caseNo, c := range cases {
		if len(sum.Failures) > 0 {
			break
		}
		h := &hx.History{ID: c.Hist.ID, Steps: append(append([]*hx.Step{}, c.Prefix...), c.Target)}
		target := len(h.Steps) - 1
		x, err := hx.OpenMemDriver(fmt.Sprintf("c07_%d", caseNo), hx.FaultDriverName)
		if err != nil {
			fail("harness", err.Error(), nil)
			return
		}
		for _, st := range h.Steps[:target] {
			if st.Gen == nil {
				runStepRaw(x, st)
			}
		}
		st := h.Steps[target]
		caseDesc := stepText(st)
		d0, _ := x.DumpRaw()
		// fail step k = 1, 2, ... until the operation runs through without the fault firing
		var silent []string // fault runs that reported success and changed nothing
		for k := int64(1); k < 400; k++ {
			if k > 40 && strings.HasPrefix(c.Kind, "big-") && k%7 != 0 {
				continue // far into a large call: every seventh position
			}
			hx.Plan.Arm(k, 0, false)
			gotErr, res := runStepRaw(x, st)
			steps := hx.Plan.Disarm()
			fired := hx.Plan.Fired
			trace := strings.Join(hx.Plan.Trace, ",")
			dk, derr := x.DumpRaw()
			if derr != nil {
				fail("c07-unusable", fmt.Sprintf("after a fault at step %d of [%s] the database cannot be read: %v", k, caseDesc, derr), caseDesc)
				break
			}
			sum.Cases++
			if !fired {
				// the operation ran undisturbed.  If it changes the database, then every fault
				// run above that reported SUCCESS and changed nothing has told its caller that
				// the operation took effect when it did not
				if dk != d0 && len(silent) > 0 && !gotErr && !st.Block { // (a block's own error is looked at in c07Bodies)
					fail("c07-success-without-effect", fmt.Sprintf("[%s] changes the database when it runs undisturbed; with a failing storage step (%s) it reported success (no error) and changed nothing\n before: %s",
						caseDesc, silent[0], d0), map[string]any{"op": caseDesc, "fault": silent[0]})
					break
				}
				count("operations_enumerated")
				count(fmt.Sprintf("steps_%d", steps))
				distinct(caseDesc)
				break
			}
			count("faults_injected")
			count("fault_at_" + kindAt(hx.Plan.Trace, k))
			blockIgnoresErrors := st.Block && !st.StopOnErr
			if dk != d0 {
				if gotErr && !blockIgnoresErrors {
					fail("c07-not-atomic", fmt.Sprintf("[%s] with storage step %d (%s) failing reported an error (%s) but changed the database\n before: %s\n after : %s",
						caseDesc, k, trace, res, d0, dk), map[string]any{"op": caseDesc, "fail_step": k, "steps": trace})
					break
				}
				// the fault was absorbed (a transaction body that ignores errors, or an
				// operation that tolerates it): the state moved on.  A single operation that
				// reports success must then have had its WHOLE effect
				if !gotErr && !st.Block && !randomOutcome[st.Ops[0].Name] {
					if want, ok := fullEffect(c); ok {
						if got, err := hx.ContentOfDB(x.DB); err == nil && got.Text != want {
							fail("c07-not-atomic", fmt.Sprintf("[%s] with storage step %d (%s) failing reported success (%s) but left only part of its effect\n stored         : %s\n the whole effect: %s",
								caseDesc, k, trace, res, got.Text, want), map[string]any{"op": caseDesc, "fail_step": k, "steps": trace})
							break
						}
					}
				}
				count("fault_absorbed")
				audit, _ := hx.AuditAndContinue(x, &hx.History{ID: caseNo})
				if audit != "ok" {
					fail("c07-inconsistent", fmt.Sprintf("[%s] absorbed a fault at step %d and left an inconsistent database (%s): %s", caseDesc, k, audit, dk), caseDesc)
				}
				break
			}
			if !gotErr && !blockIgnoresErrors && !strings.Contains(res, "harness") {
				// nothing changed and no error although a write step failed: only
				// legitimate when the operation had nothing to do
				count("fault_without_error_or_change")
				silent = append(silent, fmt.Sprintf("step %d of %s, result %s", k, trace, res))
			}
		}
		if len(sum.Failures) > 0 {
			x.Close()
			break
		}
		// the database stays fully usable with unchanged behaviour: continue in lock-step with the model
		cont := g.History(100000 + caseNo)
		if len(cont.Steps) > 12 {
			cont.Steps = cont.Steps[:12]
		}
		var plain []*hx.Step
		for _, s := range cont.Steps {
			if s.Gen == nil {
				plain = append(plain, s)
			}
		}
		cont.Steps = plain
		audit, v := hx.AuditAndContinue(x, cont)
		if audit != "ok" {
			fail("c07-inconsistent", fmt.Sprintf("after the fault runs on [%s] the structural audit fails: %s", caseDesc, audit), caseDesc)
		} else if v.Kind != hx.KindNone {
			fail("c07-behaviour-changed", fmt.Sprintf("after the fault runs on [%s] the database no longer behaves like the model: %s: %s", caseDesc, v.Kind, v.Detail), caseDesc)
		}
		count("continuations_checked")
		if len(sum.Samples) < 4 {
			sum.Samples = append(sum.Samples, caseDesc)
		}
		x.Close()
	}
	if len(sum.Failures) == 0 {
		c07Bodies(seed, n)
	}
	if len(sum.Failures) == 0 {
		c07RefusedMany()
	}
	if len(sum.Failures) == 0 {
		c07ReadOnly(seed)
	}
}

// c07RefusedMany: a call that writes many elements is refused as a whole when one of its values
// is of a type that cannot be stored.  Inside a caller-managed transaction whose callback notes the
// error and commits anyway, the refused call must have left nothing behind (the order in which a
// Go map is walked must not decide which part of a refused call was written).
func c07RefusedMany() {
	for _, b := range []any{struct{}{}, int64(7), redka.Value("a value read back from the database"), []string{"x"}} {
		c07RefusedManyWith(b)
	}
}

func c07RefusedManyWith(badValue any) {
	type badT = any
	var bad = func() badT { return badValue }
	_ = bad
	many := func(n int, badAt int, val func(i int) any) map[string]any {
		m := map[string]any{}
		for i := 0; i < n; i++ {
			if i == badAt {
				m[fmt.Sprintf("n%02d", i)] = badValue
			} else {
				m[fmt.Sprintf("n%02d", i)] = val(i)
			}
		}
		return m
	}
	calls := []struct {
		name string
		run  func(tx *redka.Tx, trial int) error
	}{
		{"Str().SetMany", func(tx *redka.Tx, t int) error {
			return tx.Str().SetMany(many(30, t%30, func(i int) any { return "v" }))
		}},
		{"Hash().SetMany (existing hash)", func(tx *redka.Tx, t int) error {
			_, err := tx.Hash().SetMany("h", many(30, t%30, func(i int) any { return i }))
			return err
		}},
		{"Hash().SetMany (new hash)", func(tx *redka.Tx, t int) error {
			_, err := tx.Hash().SetMany(fmt.Sprintf("hnew%d", t), many(30, t%30, func(i int) any { return "v" }))
			return err
		}},
		{"Set().Add", func(tx *redka.Tx, t int) error {
			vals := make([]any, 30)
			for i := range vals {
				vals[i] = fmt.Sprintf("m%02d", i)
			}
			vals[5+t%25] = badValue
			_, err := tx.Set().Add("e", vals...)
			return err
		}},
		{"ZSet().AddMany", func(tx *redka.Tx, t int) error {
			items := map[any]float64{}
			for i := 0; i < 30; i++ {
				items[fmt.Sprintf("m%02d", i)] = float64(i)
			}
			if hashable(badValue) {
				items[badValue] = 1
			} else {
				items[struct{}{}] = 1
			}
			_, err := tx.ZSet().AddMany("z", items)
			return err
		}},
		{"ZSet().AddMany (new sorted set)", func(tx *redka.Tx, t int) error {
			items := map[any]float64{}
			for i := 0; i < 30; i++ {
				items[fmt.Sprintf("m%02d", i)] = float64(i)
			}
			if hashable(badValue) {
				items[badValue] = 1
			} else {
				items[struct{}{}] = 1
			}
			_, err := tx.ZSet().AddMany(fmt.Sprintf("znew%d", t), items)
			return err
		}},
		{"ZSet().Delete", func(tx *redka.Tx, t int) error {
			vals := []any{"a", "b", badValue, "c"}
			_, err := tx.ZSet().Delete("z", vals...)
			return err
		}},
		{"Set().Delete", func(tx *redka.Tx, t int) error {
			_, err := tx.Set().Delete("e", "x", badValue, "y")
			return err
		}},
		{"List().PushBack", func(tx *redka.Tx, t int) error {
			_, err := tx.List().PushBack("l", badValue)
			return err
		}},
	}
	for ci, c := range calls {
		for trial := 0; trial < 6 && len(sum.Failures) == 0; trial++ {
			x, err := hx.OpenMem(fmt.Sprintf("c07rm_%d_%d", ci, trial))
			if err != nil {
				fail("harness", err.Error(), nil)
				return
			}
			_ = x.DB.Str().Set("n03", "old")
			_, _ = x.DB.Hash().Set("h", "n04", "old")
			_, _ = x.DB.Set().Add("e", "x", "m07")
			_, _ = x.DB.ZSet().Add("z", "a", 1)
			_, _ = x.DB.List().PushBack("l", "a")
			d0, _ := x.DumpRaw()
			var callErr error
			txErr := x.DB.Update(func(tx *redka.Tx) error {
				callErr = c.run(tx, trial)
				return nil // the callback notes the error and carries on
			})
			d1, _ := x.DumpRaw()
			sum.Cases++
			count("refused_multi_element_calls")
			if callErr == nil {
				fail("c07-not-atomic", fmt.Sprintf("%s with a value that cannot be stored (%T) among its arguments reported success", c.name, badValue), nil)
			} else if txErr == nil && d1 != d0 {
				fail("c07-not-atomic", fmt.Sprintf("%s with a %T among its values was refused (%v) inside a transaction that then committed, yet part of it was written\n before: %s\n after : %s", c.name, badValue, callErr, d0, d1), nil)
			}
			x.Close()
		}
	}
}

// bigCases: single calls that write hundreds of elements (one call = one atomic change however
// the implementation chooses to send it to the storage): the fault positions reach far into them.
func bigCases() []opCase {
	const N = 300
	var vals []hx.Value
	var fields []string
	var kvs, keyvals []hx.KV
	var zvs []hx.ZV
	var keys []string
	for i := 0; i < N; i++ {
		name := fmt.Sprintf("m%03d", i)
		vals = append(vals, hx.VStr(name))
		fields = append(fields, name)
		kvs = append(kvs, hx.KV{K: name, V: hx.VStr("v")})
		keyvals = append(keyvals, hx.KV{K: "bigk" + name, V: hx.VStr("v")})
		zvs = append(zvs, hx.ZV{V: hx.VStr(name), Score: float64(i)})
		keys = append(keys, "bigk"+name)
	}
	one := func(op *hx.Op) *hx.Step { return &hx.Step{Ops: []*hx.Op{op}} }
	mk := func(id int, kind string, target *hx.Op, prefix ...*hx.Op) opCase {
		var pre []*hx.Step
		for _, p := range prefix {
			pre = append(pre, one(p))
		}
		return opCase{Hist: &hx.History{ID: 900000 + id}, Prefix: pre, Target: one(target), Kind: kind}
	}
	// stores on a destination that exists and holds something, with a result that is not empty:
	// every statement of the store has something to do
	sa := []*hx.Op{hx.EAdd("sa", hx.VStr("1"), hx.VStr("2"), hx.VStr("3")), hx.EAdd("sb", hx.VStr("2"), hx.VStr("3"), hx.VStr("4")), hx.EAdd("sold", hx.VStr("old1"), hx.VStr("old2"))}
	za := []*hx.Op{hx.ZAdd("za", hx.VStr("1"), 1), hx.ZAdd("za", hx.VStr("2"), 2), hx.ZAdd("zb", hx.VStr("2"), 5), hx.ZAdd("zb", hx.VStr("3"), 1), hx.ZAdd("zold", hx.VStr("old1"), 9), hx.ZAdd("zold", hx.VStr("old2"), 8)}
	var stores []opCase
	for i, alg := range []string{"diff", "inter", "union"} {
		stores = append(stores, mk(20+i, "store-EStore-"+alg, hx.EStore(alg, "sold", "sa", "sb"), sa...))
	}
	for i, agg := range []string{"sum", "min", "max", "default"} {
		stores = append(stores, mk(30+i, "store-ZInterStore-"+agg, hx.ZStore(true, agg, "zold", "za", "zb"), za...))
		stores = append(stores, mk(40+i, "store-ZUnionStore-"+agg, hx.ZStore(false, agg, "zold", "za", "zb"), za...))
	}
	return append(stores, []opCase{
		mk(1, "big-EAdd", hx.EAdd("bigE", vals...)),
		mk(2, "big-HSetMany", hx.HSetMany("bigH", kvs...)),
		mk(3, "big-ZAddMany", hx.ZAddMany("bigZ", zvs...)),
		mk(4, "big-SSetMany", hx.SSetMany(keyvals...)),
		mk(5, "big-KDelete", hx.KDelete(keys...), hx.SSetMany(keyvals...)),
		mk(6, "big-EDelete", hx.EDelete("bigE", vals...), hx.EAdd("bigE", vals...)),
		mk(7, "big-HDelete", hx.HDelete("bigH", fields...), hx.HSetMany("bigH", kvs...)),
		mk(8, "big-ZDelete", hx.ZDelete("bigZ", vals...), hx.ZAddMany("bigZ", zvs...)),
	}...)
}

var randomOutcome = map[string]bool{"EPop": true, "ERandom": true, "KRandom": true}

func kindAt(trace []string, k int64) string {
	if int(k) >= 1 && int(k) <= len(trace) {
		return trace[k-1]
	}
	return "?"
}

var errBody = errors.New("callback error")

// c07Bodies: transaction bodies of up to 4 operations aborted after any prefix
// by a returned error, a panic, or a cancelled context; the database content must
// be exactly as before and the handle fully usable afterwards.
func c07Bodies(seed int64, n int) {
	prof := hx.Profiles["mixed"]
	prof.MinSteps, prof.MaxSteps = 4, 14
	prof.Blocks = false
	g := hx.NewGen(seed+7, prof)
	for caseNo := 0; caseNo < n && len(sum.Failures) == 0; caseNo++ {
		h := g.History(caseNo)
		x, err := hx.OpenMem(fmt.Sprintf("c07b_%d", caseNo))
		if err != nil {
			fail("harness", err.Error(), nil)
			return
		}
		var body []*hx.Op
		for _, st := range h.Steps {
			if st.Gen != nil || len(st.Ops) != 1 {
				continue
			}
			if len(body) < 4 && st.Ops[0].RunDB == nil && !st.Ops[0].MultiMap && st.Ops[0].Write {
				body = append(body, st.Ops[0])
			} else {
				runStepRaw(x, st)
			}
		}
		if len(body) == 0 {
			x.Close()
			continue
		}
		desc := make([]string, len(body))
		for i, op := range body {
			desc[i] = op.Tok
		}
		d0, _ := x.DumpRaw()
		for _, how := range []string{"error", "panic", "cancel"} {
			for j := 0; j <= len(body) && len(sum.Failures) == 0; j++ {
				sum.Cases++
				count("body_" + how)
				distinct(how + strings.Join(desc, ";") + fmt.Sprint(j))
				var ret error
				finished := make(chan struct{})
				go func() {
					defer close(finished)
					defer func() { _ = recover() }()
					ctx, cancel := context.WithCancel(context.Background())
					defer cancel()
					// error and panic bodies run under the plain Update (no context whose cancellation
					// would clean up behind them); cancellation needs UpdateContext
					update := func(f func(tx *redka.Tx) error) error { return x.DB.Update(f) }
					if how == "cancel" {
						update = func(f func(tx *redka.Tx) error) error { return x.DB.UpdateContext(ctx, f) }
					}
					ret = errBody
					ret = update(func(tx *redka.Tx) error {
						r := hxTx(tx)
						for i, op := range body {
							if i == j {
								switch how {
								case "error":
									return errBody
								case "panic":
									panic("callback panic")
								default:
									cancel()
								}
							}
							op.Run(r, x, op)
						}
						if j == len(body) {
							switch how {
							case "error":
								return errBody
							case "panic":
								panic("callback panic")
							default:
								cancel()
							}
						}
						return nil
					})
				}()
				select {
				case <-finished:
				case <-time.After(20 * time.Second):
					fail("c07-unusable", fmt.Sprintf("a transaction body [%s] aborted by %s after %d operations: the call does not return (the handle is blocked, probably by a transaction left open by an earlier aborted body)", strings.Join(desc, " ; "), how, j), desc)
					return
				}
				dk, derr := x.DumpRaw()
				if derr != nil {
					fail("c07-unusable", fmt.Sprintf("after a transaction body aborted by %s the database cannot be read: %v", how, derr), desc)
					return
				}
				if dk != d0 {
					fail("c07-not-atomic", fmt.Sprintf("a transaction body [%s] aborted by %s after %d operations changed the database\n before: %s\n after : %s",
						strings.Join(desc, " ; "), how, j, d0, dk), map[string]any{"body": desc, "abort": how, "after": j})
					return
				}
				if ret == nil {
					// success was reported and nothing changed: only legitimate when the body has no effect at all
					_ = x.DB.Update(func(tx *redka.Tx) error {
						r := hxTx(tx)
						for _, op := range body {
							op.Run(r, x, op)
						}
						return nil
					})
					dz, _ := x.DumpRaw()
					if dz != d0 {
						fail("c07-not-atomic", fmt.Sprintf("a transaction body [%s] whose context was cancelled after %d operations reported SUCCESS (nil error) although none of its effects were applied\n content: %s\n the same body, committed: %s",
							strings.Join(desc, " ; "), j, d0, dz), map[string]any{"body": desc, "abort": how, "after": j})
						return
					}
					count("body_success_without_effect")
				}
			}
		}
		// usable with unchanged behaviour afterwards (this also notices a read-write connection
		// that was replaced by one without the pragmas: deletes stop cascading)
		cont := g.History(200000 + caseNo)
		var plain []*hx.Step
		for _, s := range cont.Steps {
			if s.Gen == nil {
				plain = append(plain, s)
			}
		}
		cont.Steps = plain
		// make sure key deletion is exercised
		cont.Steps = append(cont.Steps, &hx.Step{Ops: []*hx.Op{hx.KDelete("k1", "k2", "k3")}}, &hx.Step{Ops: []*hx.Op{hx.EAdd("k1", hx.VStr("fresh"))}},
			&hx.Step{Ops: []*hx.Op{hx.EItems("k1")}}, &hx.Step{Ops: []*hx.Op{hx.LPushBack("k2", hx.VStr("fresh"))}}, &hx.Step{Ops: []*hx.Op{hx.LRange("k2", 0, -1)}})
		audit, v := hx.AuditAndContinue(x, cont)
		if audit != "ok" {
			fail("c07-inconsistent", "after aborted transaction bodies the structural audit fails: "+audit, desc)
		} else if v.Kind != hx.KindNone {
			if strings.Contains(v.Detail, "audit failed: inv") || v.Kind == hx.KindAudit {
				fail("c07-behaviour-changed", "after aborted transaction bodies (error / panic / cancelled context) the database no longer behaves as before: "+v.Kind+": "+v.Detail, desc)
			} else {
				fail("c07-behaviour-changed", "after aborted transaction bodies the database no longer behaves like the model: "+v.Kind+": "+v.Detail, desc)
			}
		}
		count("continuations_checked")
		x.Close()
	}
}

// c07ReadOnly: a read-only transaction or handle can never change the database.
// hashable: the value can be the key of a Go map.
func hashable(v any) bool {
	defer func() { _ = recover() }()
	m := map[any]bool{}
	m[v] = true
	return true
}

func c07ReadOnly(seed int64) {
	dir, err := os.MkdirTemp("", "sysrun-ro-")
	if err != nil {
		fail("harness", err.Error(), nil)
		return
	}
	defer os.RemoveAll(dir)
	// the database path as a plain file name and as URIs with the open modes SQLite accepts
	for i, form := range []string{"%s", "file:%s", "file:%s?mode=rwc", "file:%s?mode=rw", "file:%s?cache=private&mode=rwc"} {
		if len(sum.Failures) > 0 {
			return
		}
		file := filepath.Join(dir, fmt.Sprintf("ro%d.db", i))
		if strings.Contains(form, "mode=rw") && !strings.Contains(form, "mode=rwc") {
			// mode=rw does not create: make the file first
			x0, err := hx.OpenPath(file)
			if err != nil {
				fail("harness", err.Error(), nil)
				return
			}
			x0.Close()
		}
		c07ReadOnlyPath(seed+int64(i), fmt.Sprintf(form, file), file)
	}
	// connected with OpenDB on two caller-opened handles, the second one read-only (mode=ro)
	if len(sum.Failures) == 0 {
		file := filepath.Join(dir, "ro-opendb.db")
		if x0, err := hx.OpenPath(file); err == nil {
			x0.Close()
			c07ReadOnlyPath(seed+77, "opendb2:"+file, file)
		}
	}
}

func c07ReadOnlyPath(seed int64, path, file string) {
	var x *hx.Exec
	var err error
	if strings.HasPrefix(path, "opendb2:") {
		x, err = hx.OpenPathTwoHandles(file)
	} else {
		x, err = hx.OpenPath(path)
	}
	if err != nil {
		fail("harness", "open "+path+": "+err.Error(), nil)
		return
	}
	count("readonly_path_forms")
	for _, st := range []*hx.Op{hx.SSet("k1", hx.VStr("v")), hx.LPushBack("k2", hx.VStr("a")), hx.EAdd("k3", hx.VStr("m")),
		hx.HSet("k4", "f", hx.VStr("v")), hx.ZAdd("k5", hx.VStr("m"), 1)} {
		runStepRaw(x, &hx.Step{Ops: []*hx.Op{st}})
	}
	d0, _ := x.DumpRaw()
	prof := hx.Profiles["mixed"]
	g := hx.NewGen(seed+99, prof)
	// (1) View transactions on the writable handle
	for i := 0; i < 40; i++ {
		h := g.History(i)
		view := x.DB.View
		if i%2 == 1 {
			view = func(f func(tx *redka.Tx) error) error { return x.DB.ViewContext(context.Background(), f) }
		}
		_ = view(func(tx *redka.Tx) error {
			r := hxTx(tx)
			for _, st := range h.Steps {
				for _, op := range st.Ops {
					if st.Gen == nil && op.RunDB == nil {
						op.Run(r, x, op)
						sum.Cases++
					}
				}
			}
			return nil
		})
		count("view_transactions")
	}
	// every repository has a View of its own (the embedded transaction wrapper): a write inside it
	// is refused as well
	// (the transaction types live in internal packages: the calls are made by reflection)
	call := func(tx reflect.Value, method string, args ...any) {
		m := tx.MethodByName(method)
		if !m.IsValid() {
			return
		}
		in := make([]reflect.Value, len(args))
		for i, a := range args {
			in[i] = reflect.ValueOf(a)
		}
		defer func() { _ = recover() }()
		m.Call(in)
	}
	viewOf := func(repo any, body func(tx reflect.Value)) func() error {
		return func() error {
			v := reflect.ValueOf(repo).MethodByName("View")
			if !v.IsValid() || v.Type().NumIn() != 1 {
				return nil
			}
			ft := v.Type().In(0)
			fn := reflect.MakeFunc(ft, func(a []reflect.Value) []reflect.Value {
				body(a[0])
				return []reflect.Value{reflect.Zero(ft.Out(0))}
			})
			out := v.Call([]reflect.Value{fn})
			if e, ok := out[0].Interface().(error); ok {
				return e
			}
			return nil
		}
	}
	repoViews := []struct {
		name string
		run  func() error
	}{
		{"Str().View", viewOf(x.DB.Str(), func(tx reflect.Value) { call(tx, "Set", "k1", "w"); call(tx, "Set", "newkey-s", "w") })},
		{"List().View", viewOf(x.DB.List(), func(tx reflect.Value) {
			call(tx, "PushBack", "k2", "w")
			call(tx, "PushBack", "newkey-l", "w")
			call(tx, "PopFront", "k2")
		})},
		{"Set().View", viewOf(x.DB.Set(), func(tx reflect.Value) { call(tx, "Add", "k3", "w"); call(tx, "Add", "newkey-e", "w") })},
		{"Hash().View", viewOf(x.DB.Hash(), func(tx reflect.Value) { call(tx, "Set", "k4", "f", "w"); call(tx, "Set", "newkey-h", "f", "w") })},
		{"ZSet().View", viewOf(x.DB.ZSet(), func(tx reflect.Value) { call(tx, "Add", "k5", "w", 9.0); call(tx, "Add", "newkey-z", "w", 1.0) })},
		{"Key().View", viewOf(x.DB.Key(), func(tx reflect.Value) { call(tx, "Delete", "k1", "k2"); call(tx, "Persist", "k3") })},
	}
	for _, rv := range repoViews {
		_ = rv.run()
		sum.Cases++
		count("repository_views")
		if dv, _ := x.DumpRaw(); dv != d0 {
			fail("c07-readonly-wrote", fmt.Sprintf("database opened as %q: writes inside %s (a read-only transaction) changed the database\n before: %s\n after : %s", path, rv.name, d0, dv), nil)
			break
		}
	}
	d1, _ := x.DumpRaw()
	if d1 != d0 {
		fail("c07-readonly-wrote", fmt.Sprintf("database opened as %q: operations inside read-only (View) transactions changed the database\n before: %s\n after : %s", path, d0, d1), nil)
	}
	x.Close()
	if strings.HasPrefix(path, "opendb2:") {
		path = file
	}
	// (2) a read-only handle on the same file
	ro, err := redka.OpenRead(path, nil)
	if err != nil {
		fail("harness", "OpenRead: "+err.Error(), nil)
		return
	}
	xr := &hx.Exec{DB: ro}
	for i := 0; i < 40; i++ {
		h := g.History(1000 + i)
		for _, st := range h.Steps {
			for _, op := range st.Ops {
				if st.Gen == nil && op.RunDB == nil {
					op.Run(hxDB(ro), xr, op)
					sum.Cases++
				}
			}
		}
		count("readonly_handle_histories")
	}
	ro.Close()
	x2, err := hx.OpenPath(path)
	if err != nil {
		fail("c07-unusable", "cannot re-open after read-only use: "+err.Error(), nil)
		return
	}
	d2, _ := x2.DumpRaw()
	x2.Close()
	if d2 != d0 {
		fail("c07-readonly-wrote", fmt.Sprintf("database opened as %q: operations through a read-only handle changed the database\n before: %s\n after : %s", path, d0, d2), nil)
	}
}
