package main

import (
	"encoding/hex"
	"fmt"
	"regexp"
	"strings"
	"time"

	"github.com/nalgeon/redka"
	"verif/harness/hx"
)

// C10, the exact expiry instant on the real clock: a key is given an expiry a
// few tens of milliseconds ahead (a whole millisecond), and one reader after
// the other is polled tightly across that instant. A call that started at or
// after the instant must see nothing; a call that finished before it must see
// the key. Every reader is judged on its own calls, so no two clock reads are
// compared with each other.
type probe struct {
	name    string
	present func(db *redka.DB) (bool, error) // does the reader still see key "bk"?
	mk      func(db *redka.DB)               // create key "bk"
}

func mkStr(db *redka.DB)  { _ = db.Str().Set("bk", "v") }
func mkList(db *redka.DB) { _, _ = db.List().PushBack("bk", "v") }
func mkSet(db *redka.DB)  { _, _ = db.Set().Add("bk", "v") }
func mkHash(db *redka.DB) { _, _ = db.Hash().Set("bk", "f", "v") }
func mkZSet(db *redka.DB) { _, _ = db.ZSet().Add("bk", "v", 1) }

func nf(err error) (bool, error) {
	if err == redka.ErrNotFound {
		return false, nil
	}
	return err == nil, err
}

var probes = []probe{
	{"Str.Get", func(db *redka.DB) (bool, error) { _, err := db.Str().Get("bk"); return nf(err) }, mkStr},
	{"Str.GetMany", func(db *redka.DB) (bool, error) { m, err := db.Str().GetMany("bk"); return len(m) > 0, err }, mkStr},
	{"Key.Exists", func(db *redka.DB) (bool, error) { return db.Key().Exists("bk") }, mkStr},
	{"Key.Count", func(db *redka.DB) (bool, error) { n, err := db.Key().Count("bk"); return n > 0, err }, mkList},
	{"Key.Get", func(db *redka.DB) (bool, error) { _, err := db.Key().Get("bk"); return nf(err) }, mkSet},
	{"Key.Keys", func(db *redka.DB) (bool, error) { ks, err := db.Key().Keys("b*"); return len(ks) > 0, err }, mkHash},
	{"Key.Scan", func(db *redka.DB) (bool, error) { r, err := db.Key().Scan(0, "*", 0, 10); return len(r.Keys) > 0, err }, mkZSet},
	{"List.Len", func(db *redka.DB) (bool, error) { n, err := db.List().Len("bk"); return n > 0, err }, mkList},
	{"List.Range", func(db *redka.DB) (bool, error) { v, err := db.List().Range("bk", 0, -1); return len(v) > 0, err }, mkList},
	{"List.Get", func(db *redka.DB) (bool, error) { _, err := db.List().Get("bk", 0); return nf(err) }, mkList},
	{"Set.Len", func(db *redka.DB) (bool, error) { n, err := db.Set().Len("bk"); return n > 0, err }, mkSet},
	{"Set.Items", func(db *redka.DB) (bool, error) { v, err := db.Set().Items("bk"); return len(v) > 0, err }, mkSet},
	{"Set.Exists", func(db *redka.DB) (bool, error) { return db.Set().Exists("bk", "v") }, mkSet},
	{"Set.Union", func(db *redka.DB) (bool, error) { v, err := db.Set().Union("bk", "other"); return len(v) > 0, err }, mkSet},
	{"Hash.Len", func(db *redka.DB) (bool, error) { n, err := db.Hash().Len("bk"); return n > 0, err }, mkHash},
	{"Hash.Get", func(db *redka.DB) (bool, error) { _, err := db.Hash().Get("bk", "f"); return nf(err) }, mkHash},
	{"Hash.Items", func(db *redka.DB) (bool, error) { m, err := db.Hash().Items("bk"); return len(m) > 0, err }, mkHash},
	{"Hash.Exists", func(db *redka.DB) (bool, error) { return db.Hash().Exists("bk", "f") }, mkHash},
	{"ZSet.Len", func(db *redka.DB) (bool, error) { n, err := db.ZSet().Len("bk"); return n > 0, err }, mkZSet},
	{"ZSet.GetScore", func(db *redka.DB) (bool, error) { _, err := db.ZSet().GetScore("bk", "v"); return nf(err) }, mkZSet},
	{"ZSet.Range", func(db *redka.DB) (bool, error) { v, err := db.ZSet().Range("bk", 0, 10); return len(v) > 0, err }, mkZSet},
	{"ZSet.Count", func(db *redka.DB) (bool, error) { n, err := db.ZSet().Count("bk", 0, 2); return n > 0, err }, mkZSet},
	{"ZSet.Union", func(db *redka.DB) (bool, error) { v, err := db.ZSet().Union("bk", "other"); return len(v) > 0, err }, mkZSet},
	{"ZSet.GetRank", func(db *redka.DB) (bool, error) { _, _, err := db.ZSet().GetRank("bk", "v"); return nf(err) }, mkZSet},
}

// write probes: an operation that needs the key to exist, called in the very millisecond the
// key expires (the call starts at or after the instant): it must treat the key as absent.
type wprobe struct {
	name    string
	mk      func(db *redka.DB)
	present func(db *redka.DB) (bool, error) // did the operation treat key "bk" as existing?
}

func mkNum(db *redka.DB) { _ = db.Str().Set("bk", "5") }

var wprobes = []wprobe{
	{"Key.Persist", mkStr, func(db *redka.DB) (bool, error) { return nf(db.Key().Persist("bk")) }},
	{"Key.Expire", mkList, func(db *redka.DB) (bool, error) { return nf(db.Key().Expire("bk", time.Hour)) }},
	{"Key.Rename", mkSet, func(db *redka.DB) (bool, error) { return nf(db.Key().Rename("bk", "bk2")) }},
	{"Key.RenameNotExists", mkHash, func(db *redka.DB) (bool, error) {
		_, err := db.Key().RenameNotExists("bk", "bk3")
		return nf(err)
	}},
	{"Key.Delete", mkZSet, func(db *redka.DB) (bool, error) { n, err := db.Key().Delete("bk"); return n > 0, err }},
	{"Str.Incr", mkNum, func(db *redka.DB) (bool, error) { v, err := db.Str().Incr("bk", 1); return v == 6, err }},
	{"Str.SetWith.IfExists", mkStr, func(db *redka.DB) (bool, error) {
		out, err := db.Str().SetWith("bk", "new").IfExists().Run()
		return out.Updated, err
	}},
	{"List.Set", mkList, func(db *redka.DB) (bool, error) { return nf(db.List().Set("bk", 0, "x")) }},
	{"List.PopBack", mkList, func(db *redka.DB) (bool, error) { _, err := db.List().PopBack("bk"); return nf(err) }},
	{"List.InsertBefore", mkList, func(db *redka.DB) (bool, error) { _, err := db.List().InsertBefore("bk", "v", "x"); return nf(err) }},
	{"List.PushBack", mkList, func(db *redka.DB) (bool, error) { n, err := db.List().PushBack("bk", "w"); return n == 2, err }},
	{"Set.Delete", mkSet, func(db *redka.DB) (bool, error) { n, err := db.Set().Delete("bk", "v"); return n > 0, err }},
	{"Set.Pop", mkSet, func(db *redka.DB) (bool, error) { _, err := db.Set().Pop("bk"); return nf(err) }},
	{"Set.Add", mkSet, func(db *redka.DB) (bool, error) { n, err := db.Set().Add("bk", "v"); return n == 0, err }},
	{"Hash.Delete", mkHash, func(db *redka.DB) (bool, error) { n, err := db.Hash().Delete("bk", "f"); return n > 0, err }},
	{"Hash.SetNotExists", mkHash, func(db *redka.DB) (bool, error) { ok, err := db.Hash().SetNotExists("bk", "f", "w"); return !ok, err }},
	{"ZSet.Delete", mkZSet, func(db *redka.DB) (bool, error) { n, err := db.ZSet().Delete("bk", "v"); return n > 0, err }},
	{"ZSet.Incr", mkZSet, func(db *redka.DB) (bool, error) { v, err := db.ZSet().Incr("bk", "v", 1); return v == 2, err }},
}

func runC10WriteBoundary(db *redka.DB, rounds int) {
	for round := 0; round < rounds && len(sum.Failures) == 0; round++ {
		for _, p := range wprobes {
			_, _ = db.Key().Delete("bk", "bk2", "bk3")
			p.mk(db)
			e := time.Now().UnixMilli() + 12
			if err := db.Key().ExpireAt("bk", time.UnixMilli(e)); err != nil {
				fail("harness", "ExpireAt: "+err.Error(), nil)
				return
			}
			for time.Now().UnixMilli() < e {
			}
			t0 := time.Now().UnixMilli()
			present, err := p.present(db)
			sum.Cases++
			if err != nil {
				fail("c10-boundary-error", fmt.Sprintf("%s failed at the expiry boundary: %v", p.name, err), nil)
				return
			}
			if present {
				fail("c10-boundary", fmt.Sprintf("%s treated the key as existing although the call started at %d, at or after its expiry instant %d", p.name, t0, e), p.name)
				return
			}
			count("write_boundary_probes")
			if t0 == e {
				count("write_probes_started_inside_the_expiry_millisecond")
			}
		}
	}
}

// c10PreparedCommands: a command object built in advance and run later.  A relative time-to-live
// counts from the moment the write is made (Run), not from the moment the object was built:
// right after a successful Run the key is there, and its expiry instant is Run time + ttl.
func c10PreparedCommands(db *redka.DB) {
	type prepared struct {
		name string
		run  func() error
	}
	const ttl = 300 * time.Millisecond
	cmds := []prepared{
		{"Str().SetWith(k, v).TTL(300ms)", func() error { _, err := db.Str().SetWith("pk0", "v").TTL(ttl).Run(); return err }},
	}
	// built now ...
	c1 := db.Str().SetWith("pk1", "v").TTL(ttl)
	c2 := db.Str().SetWith("pk2", "v").IfNotExists().TTL(ttl)
	c3 := db.Str().SetWith("pk3", "v").KeepTTL().TTL(ttl)
	cmds = append(cmds,
		prepared{"a Str().SetWith(k, v).TTL(300ms) object built 450 ms before Run", func() error { _, err := c1.Run(); return err }},
		prepared{"a Str().SetWith(k, v).IfNotExists().TTL(300ms) object built 450 ms before Run", func() error { _, err := c2.Run(); return err }},
		prepared{"a Str().SetWith(k, v).KeepTTL().TTL(300ms) object built 450 ms before Run", func() error { _, err := c3.Run(); return err }},
	)
	// ... run later
	time.Sleep(450 * time.Millisecond)
	for i, c := range cmds {
		key := fmt.Sprintf("pk%d", i)
		t0 := time.Now().UnixMilli()
		err := c.run()
		t1 := time.Now().UnixMilli()
		sum.Cases++
		count("prepared_commands")
		if err != nil {
			fail("harness", c.name+": "+err.Error(), nil)
			return
		}
		k, gerr := db.Key().Get(key)
		if time.Now().UnixMilli() < t0+ttl.Milliseconds()-20 {
			if gerr != nil {
				fail("c10-live-key-missing", fmt.Sprintf("%s succeeded, and %d ms later the key is not there (%v): the time-to-live was counted from when the object was built", c.name, time.Now().UnixMilli()-t1, gerr), nil)
				return
			}
		}
		if gerr == nil && k.ETime != nil && (*k.ETime < t0+ttl.Milliseconds() || *k.ETime > t1+ttl.Milliseconds()) {
			fail("c10-expiry-instant", fmt.Sprintf("%s ran between %d and %d: the key's expiry instant %d is not Run time + 300 ms", c.name, t0, t1, *k.ETime), nil)
			return
		}
	}
}

// c10PurgeEquivalence: every kind of operation, on a database whose keys have all expired but are
// still stored, gives the result and leaves the visible content that it gives after those keys
// have been physically removed (the statement of C10_reads_do_not_see_expired_keys and
// C10_writes_do_not_see_expired_keys_either, asked of the code for every operation kind).
func c10PurgeEquivalence(seed int64) {
	pool := newCasePool(seed+13, allFamilies, 30, func(p *hx.Profile) {
		p.MinSteps, p.MaxSteps = 8, 20
		p.Expiry = false
		p.ExpireProb = 0
	}, func(st *hx.Step) bool {
		if st.Block || st.Gen != nil || len(st.Ops) != 1 {
			return false
		}
		switch st.Ops[0].Name {
		case "EPop", "ERandom", "KRandom", "KLen", "KDeleteExpired", "KDeleteAll":
			return false // random choices; Len is the recorded finding; the last two are about stored rows
		}
		return len(st.Ops[0].RelTTL) == 0
	})
	past := time.Now().Add(-time.Hour)
	for _, kind := range pool.kinds {
		for try := 0; try < 4 && len(sum.Failures) == 0; try++ {
			// (two occurrences that change or find something while the keys are live, then three
			// that are refused or find nothing there - e.g. a rename onto a key of another type,
			// which succeeds once that key has expired)
			pred := findsSomething
			if try >= 2 {
				pred = func(c opCase) bool { return !findsSomething(c) }
			}
			c, found := pool.TakeWhere(kind, 25, pred)
			if !found {
				break
			}
			if len(c.Prefix) < 3 {
				continue
			}
			for variant := 0; variant < 2 && len(sum.Failures) == 0; variant++ {
				// variant 0: every key has expired; variant 1: every key but the first one the target names
				keep := ""
				if variant == 1 {
					for _, f := range strings.Fields(c.Target.Ops[0].Tok)[1:] {
						if strings.HasPrefix(f, "s") {
							if b, err := hex.DecodeString(f[1:]); err == nil {
								keep = string(b)
								break
							}
						}
					}
					if keep == "" {
						break
					}
				}
				var xs [2]*hx.Exec
				var res [2]string
				var content [2]string
				okc := true
				for side := 0; side < 2; side++ {
					x, err := hx.OpenMem(fmt.Sprintf("c10pe_%d", side))
					if err != nil {
						fail("harness", err.Error(), nil)
						return
					}
					xs[side] = x
					for _, st := range c.Prefix {
						for _, op := range st.Ops {
							if op.Name == "EPop" || op.Name == "ERandom" || op.Name == "KRandom" {
								continue
							}
							runOpDB(x, op)
						}
					}
					keys, err := x.DB.Key().Keys("*")
					if err != nil || len(keys) == 0 {
						okc = false
					}
					expired := 0
					for _, k := range keys {
						if variant == 1 && k.Key == keep {
							continue
						}
						_ = x.DB.Key().ExpireAt(k.Key, past)
						expired++
					}
					if expired == 0 {
						okc = false
					}
					if side == 1 {
						_, _ = x.DB.Key().DeleteExpired(0)
					}
					res[side] = runOpDB(x, c.Target.Ops[0])
					ct, _ := hx.ContentOfDB(x.DB)
					// the visible content: without the keys whose expiry instant has passed
					gone := map[string]bool{}
					nowMs := time.Now().UnixMilli()
					for name, et := range ct.ETimes {
						if et <= nowMs {
							gone[strings.ToLower(name)] = true
						}
					}
					content[side] = withoutKeys(ct.Text, gone)
				}
				audit := "ok"
				if okc {
					audit, _ = hx.AuditAndContinue(xs[0], &hx.History{ID: 1})
				}
				xs[0].Close()
				xs[1].Close()
				if !okc {
					continue
				}
				sum.Cases++
				count("purge_equivalence_" + kind)
				// (times inside results - modification times of re-created keys - differ between two runs)
				if stripTimes(res[0]) != stripTimes(res[1]) || content[0] != content[1] {
					fail("c10-expired-visible", fmt.Sprintf("[%s] on keys that have expired but are still stored (%s): %s, content %s; after the expired keys were physically removed: %s, content %s",
						c.Target.Ops[0].Tok, []string{"all of them", "all but the first one it names"}[variant], res[0], content[0], res[1], content[1]), map[string]any{"op": c.Target.Ops[0].Tok, "prefix": describeSteps(c.Prefix)})
				} else if audit != "ok" {
					fail("c10-expired-trace", fmt.Sprintf("[%s] on keys that have all expired but are still stored left a database that breaks the structural rules: %s", c.Target.Ops[0].Tok, audit), nil)
				}
			}
		}
	}
}

// findsSomething: on the live database the case's target changes the content, or returns
// something other than "nothing there".
func findsSomething(c opCase) bool {
	x, err := hx.OpenMem("c10fs")
	if err != nil {
		return false
	}
	defer x.Close()
	for _, st := range c.Prefix {
		runStepRaw(x, st)
	}
	before, _ := hx.ContentOfDB(x.DB)
	res := runOpDB(x, c.Target.Ops[0])
	after, _ := hx.ContentOfDB(x.DB)
	if before.Text != after.Text {
		return true
	}
	switch strings.TrimSpace(res) {
	case "ok i0", "ok b0", "ok _", "ok [ ]", "ok { }", "ok s", "ok n":
		return false
	}
	return !strings.Contains(res, "notfound") && !strings.HasPrefix(res, "err ")
}

var timeRe = regexp.MustCompile(`[iM]1[6-9][0-9]{11}`)

func stripTimes(s string) string { return timeRe.ReplaceAllString(s, "T") }

// c10PreparedReads: builder objects created while a key is alive and run after it has expired
// must not see it (the liveness instant is the moment of the run).
func c10PreparedReads(db *redka.DB) {
	_, _ = db.ZSet().AddMany("pz", map[any]float64{"a": 1, "b": 2, "c": 3})
	_, _ = db.ZSet().AddMany("pz2", map[any]float64{"a": 10, "b": 20})
	_, _ = db.Set().Add("pe", "a", "b")
	_ = db.Key().Expire("pz", 250*time.Millisecond)
	_ = db.Key().Expire("pe", 250*time.Millisecond)
	byRank := db.ZSet().RangeWith("pz").ByRank(0, -1)
	byScore := db.ZSet().RangeWith("pz").ByScore(0, 10).Offset(0).Count(10)
	del := db.ZSet().DeleteWith("pz").ByRank(0, 0)
	inter := db.ZSet().InterWith("pz", "pz2")
	union := db.ZSet().UnionWith("pz", "pz2").Dest("pdest")
	setw := db.Str().SetWith("pe", "v").IfExists()
	time.Sleep(400 * time.Millisecond)
	check := func(what string, n int, err error) {
		sum.Cases++
		count("prepared_reads")
		if err == nil && n != 0 {
			fail("c10-expired-visible", fmt.Sprintf("%s, built while the key was alive and run 150 ms after it had expired, still found %d elements", what, n), nil)
		}
	}
	items, err := byRank.Run()
	check("ZSet().RangeWith(k).ByRank(0,-1)", len(items), err)
	items, err = byScore.Run()
	check("ZSet().RangeWith(k).ByScore(0,10).Offset(0).Count(10)", len(items), err)
	n, err := del.Run()
	check("ZSet().DeleteWith(k).ByRank(0,0)", n, err)
	items, err = inter.Run()
	check("ZSet().InterWith(k, k2)", len(items), err)
	n, err = union.Store()
	if err == nil && n != 2 {
		fail("c10-expired-visible", fmt.Sprintf("ZSet().UnionWith(k, k2).Dest(d).Store(), built while k was alive and run after it had expired, stored %d elements; k2 alone has 2", n), nil)
	}
	out, err := setw.Run()
	if err == nil && out.Updated {
		fail("c10-expired-visible", "Str().SetWith(k, v).IfExists(), built while k (a set) was alive and run after it had expired, found the key", nil)
	}
}

func runC10Boundary(seed int64, n int) {
	if xp, err := hx.OpenMem("c10pr"); err == nil {
		c10PreparedReads(xp.DB)
		xp.Close()
	}
	if len(sum.Failures) > 0 {
		return
	}
	c10PurgeEquivalence(seed)
	if len(sum.Failures) > 0 {
		return
	}
	x, err := hx.OpenMem("c10b")
	if err != nil {
		fail("harness", err.Error(), nil)
		return
	}
	defer x.Close()
	db := x.DB
	if xp, err := hx.OpenMem("c10p"); err == nil { // (its own database: the probes below look at whole listings)
		c10PreparedCommands(xp.DB)
		xp.Close()
	}
	if len(sum.Failures) > 0 {
		return
	}
	rounds := 1 + n/40
	for round := 0; round < rounds && len(sum.Failures) == 0; round++ {
		for _, p := range probes {
			_, _ = db.Key().Delete("bk")
			p.mk(db)
			at := time.UnixMilli(time.Now().UnixMilli() + 25)
			if err := db.Key().ExpireAt("bk", at); err != nil {
				fail("harness", "ExpireAt: "+err.Error(), nil)
				return
			}
			e := at.UnixMilli()
			inside, before, after := 0, 0, 0
			for time.Now().UnixMilli() < e+15 {
				t0 := time.Now().UnixMilli()
				present, err := p.present(db)
				t1 := time.Now().UnixMilli()
				if err != nil {
					fail("c10-boundary-error", fmt.Sprintf("%s failed at the expiry boundary: %v", p.name, err), nil)
					return
				}
				sum.Cases++
				switch {
				case t1 < e:
					before++
					if !present {
						fail("c10-boundary", fmt.Sprintf("%s no longer sees the key although the call finished at %d, before its expiry instant %d", p.name, t1, e), p.name)
						return
					}
				case t0 >= e:
					if t0 == e {
						inside++
					} else {
						after++
					}
					if present {
						fail("c10-boundary", fmt.Sprintf("%s still sees the key although the call started at %d, at or after its expiry instant %d (call ended at %d)", p.name, t0, e, t1), p.name)
						return
					}
				}
			}
			distinct(fmt.Sprintf("%s-%d", p.name, round))
			count("boundary_probes")
			if inside > 0 {
				count("probes_with_calls_inside_the_expiry_millisecond")
			}
			_ = before
			_ = after
		}
	}
	if len(sum.Failures) == 0 {
		runC10WriteBoundary(db, 3*rounds)
	}
}
