// wirerun: checks of the real server binary (built from /repo) over TCP.
//
//	-mode c14  every request gets exactly one well-formed reply, the connection
//	           stays in step, the server stays up (hostile inputs, pipelines, MULTI)
//	-mode c15  MULTI/EXEC/DISCARD against a reference state machine, one and two connections
//	-mode c13  replies and database content against the documented-API oracle on a twin database
package main

import (
	"database/sql"
	"encoding/hex"
	"encoding/json"
	"flag"
	"fmt"
	"math/rand"
	"os"
	"path/filepath"
	"sort"
	"strconv"
	"strings"
	"time"

	"github.com/nalgeon/redka"
	"verif/harness/hx"
)

type Summary struct {
	Mode             string         `json:"mode"`
	Seed             int64          `json:"seed"`
	Requests         int            `json:"requests"`
	Scripts          int            `json:"scripts"`
	Distinct         int            `json:"distinct_nontrivial"`
	ByCommand        map[string]int `json:"requests_by_command"`
	ReplyKinds       map[string]int `json:"reply_kinds"`
	Handled          int            `json:"oracle_handled"`
	Unhandled        int            `json:"oracle_unhandled"`
	StateChecks      int            `json:"state_comparisons"`
	Sweep            int            `json:"sweep_requests"`
	ScanListings     int            `json:"complete_scan_listings_compared"`
	ErrorPathRepeats int            `json:"error_path_requests_repeated"`
	BlockSequences   int            `json:"block_sequences"`
	BlockedStorage   int            `json:"blocked_storage_scenarios"`
	SQLCompared      int            `json:"requests_whose_statements_were_compared_with_the_api_calls"`
	FailingInBlock   int            `json:"catalogue_of_commands_failing_inside_a_block"`
	KeywordKeys      int            `json:"requests_on_keys_named_like_keywords"`
	LargeRequests    int            `json:"large_requests"`
	Blocks           int            `json:"multi_blocks"`
	BlocksFailed     int            `json:"multi_blocks_with_a_failing_command"`
	Failures         []Failure      `json:"failures"`
	Samples          []string       `json:"samples"`
	Known            []string       `json:"known_finding_lines"`
	WallS            float64        `json:"wall_s"`
}

type Failure struct {
	Kind   string `json:"kind"`
	Replay string `json:"replay"`
	Detail string `json:"detail"`
}

var (
	outDir string
	sum    Summary
	seen   = map[string]bool{}
)

func q(args []string) string {
	parts := make([]string, len(args))
	for i, a := range args {
		parts[i] = strconv.Quote(a)
	}
	return strings.Join(parts, " ")
}

func fail(kind, detail string, script [][]string) {
	if len(sum.Failures) >= 8 {
		return
	}
	_ = os.MkdirAll(outDir, 0o755)
	path := filepath.Join(outDir, fmt.Sprintf("wire-%s-seed%d-%d.json", sum.Mode, sum.Seed, len(sum.Failures)))
	var lines []string
	for _, s := range script {
		lines = append(lines, q(s))
	}
	b, _ := json.MarshalIndent(map[string]any{"mode": sum.Mode, "seed": sum.Seed, "kind": kind, "detail": detail,
		"script": script, "script_text": lines, "rerun": "/verif/build/wirerun -replay " + path}, "", " ")
	_ = os.WriteFile(path, b, 0o644)
	sum.Failures = append(sum.Failures, Failure{Kind: kind, Replay: path, Detail: detail})
}

func note(args []string, reply hx.RV) {
	sum.Requests++
	if len(args) > 0 {
		sum.ByCommand[strings.ToLower(args[0])]++
	}
	sum.ReplyKinds[string(reply.Kind)]++
	k := strings.Join(args, "\x00")
	if !seen[k] {
		seen[k] = true
		if len(args) > 1 {
			sum.Distinct++
		}
	}
}

func toBytes(args []string) [][]byte {
	b := make([][]byte, len(args))
	for i, a := range args {
		b[i] = []byte(a)
	}
	return b
}

func main() {
	mode := flag.String("mode", "c14", "c13 | c14 | c15")
	seed := flag.Int64("seed", 1, "PRNG seed")
	n := flag.Int("n", 2000, "number of requests / scripts")
	flag.StringVar(&outDir, "out", "/verif/replays", "replay directory")
	replay := flag.String("replay", "", "replay file")
	knownPath := flag.String("known", "/verif/KNOWN_FINDINGS.jsonl", "known findings file")
	flag.Parse()
	listedKnown = hx.KnownNames(*knownPath)
	start := time.Now()
	sum = Summary{Mode: *mode, Seed: *seed, ByCommand: map[string]int{}, ReplyKinds: map[string]int{}}
	if *replay != "" {
		os.Exit(doReplay(*replay))
	}
	facts, err := hx.LoadFacts()
	if err != nil {
		fail("harness", "srcfacts: "+err.Error(), nil)
		finish(start)
	}
	grams := facts.Grammars()
	switch *mode {
	case "c14":
		runC14(*seed, *n, grams)
	case "c15":
		runC15(*seed, *n)
	case "c13":
		runC13(*seed, *n, grams)
	default:
		fmt.Fprintln(os.Stderr, "unknown mode")
		os.Exit(2)
	}
	finish(start)
}

func finish(start time.Time) {
	for k, n := range knownHits {
		sum.Known = append(sum.Known, fmt.Sprintf("KNOWN-FINDING: property=C13 ZREVRANGEBYSCORE key max min and ZRANGE key max min BYSCORE REV read their bounds as min max, contrary to their doc comment (%s; met %d times)", k, n))
	}
	sum.WallS = time.Since(start).Seconds()
	enc := json.NewEncoder(os.Stdout)
	enc.SetIndent("", " ")
	_ = enc.Encode(sum)
	if len(sum.Failures) > 0 {
		os.Exit(1)
	}
	os.Exit(0)
}

// ---------- C14 ----------

// exchange sends one request and expects exactly one well-formed reply, then
// checks with a PING sentinel that the connection is still in step.
func exchange(c *hx.Client, args []string, sentinel int, history *[][]string) (hx.RV, bool) {
	*history = append(*history, args)
	if err := c.Send(toBytes(args)); err != nil {
		fail("c14-send", "cannot send "+q(args)+": "+err.Error(), *history)
		return hx.RV{}, false
	}
	v, err := c.Recv(5 * time.Second)
	if err != nil {
		fail("c14-no-reply", "no complete well-formed reply to "+q(args)+": "+err.Error(), *history)
		return hx.RV{}, false
	}
	note(args, v)
	tok := fmt.Sprintf("sentinel-%d", sentinel)
	*history = append(*history, []string{"PING", tok})
	if err := c.Send(toBytes([]string{"PING", tok})); err != nil {
		fail("c14-send", "cannot send sentinel after "+q(args)+": "+err.Error(), *history)
		return v, false
	}
	p, err := c.Recv(5 * time.Second)
	if err != nil {
		fail("c14-out-of-step", "no reply to the sentinel after "+q(args)+": "+err.Error(), *history)
		return v, false
	}
	if p.Kind != '$' || string(p.Str) != tok {
		fail("c14-out-of-step", fmt.Sprintf("after %s (reply %s) the sentinel PING %s was answered with %s: the connection is out of step",
			q(args), v.Verbose(), tok, p.Verbose()), *history)
		return v, false
	}
	return v, true
}

func runC14(seed int64, n int, grams []*hx.CmdGrammar) {
	srv, err := hx.StartServer("")
	if err != nil {
		fail("harness", err.Error(), nil)
		return
	}
	defer srv.Stop()
	g := &hx.WireGen{R: rand.New(rand.NewSource(seed)), Keys: []string{"k1", "k2", "k3"}, Hostile: true, NowSec: time.Now().Unix(), Lits: map[string][]string{}}
	names := []string{"bogus", "multi", "exec", "discard", ""}
	for _, cg := range grams {
		names = append(names, cg.Name)
		if len(cg.Lits) > 0 {
			g.Lits[cg.Name] = cg.Lits
		}
	}
	newConn := func() *hx.Client {
		c, err := hx.Dial(srv.Addr)
		if err != nil {
			return nil
		}
		return c
	}
	c := newConn()
	if c == nil {
		fail("c14-server-down", "cannot connect", nil)
		return
	}
	var history [][]string
	sent := 0
	var errReqs [][]string
	errSeen := map[string]bool{}
	// a second, idle client that must keep being served
	other := newConn()
	for i := 0; i < n && len(sum.Failures) == 0; i++ {
		var args []string
		switch g.R.Intn(10) {
		case 0, 1, 2, 3:
			args = g.HostileVector(names)
		default:
			cg := grams[g.R.Intn(len(grams))]
			args = g.Vector(cg, 0.4)
		}
		if len(args) == 0 {
			args = []string{""}
		}
		low := strings.ToLower(args[0])
		if low == "multi" || low == "exec" || low == "discard" {
			continue // transaction blocks are exercised separately below
		}
		sent++
		rv, okx := exchange(c, args, i, &history)
		if okx && rv.Kind == '-' && len(errReqs) < 80 {
			msg := string(rv.Str)
			// errors raised while the command ran (not by the argument parser)
			if !strings.Contains(msg, "syntax") && !strings.Contains(msg, "wrong number") && !strings.Contains(msg, "unknown command") &&
				!strings.Contains(msg, "not an integer") && !strings.Contains(msg, "not a float") && !errSeen[low+"|"+msg] {
				errSeen[low+"|"+msg] = true
				errReqs = append(errReqs, args)
			}
		}
		if !okx {
			// is the server still alive?
			if !srv.Alive() {
				fail("c14-server-down", "the server no longer answers after "+q(args), history)
			}
			break
		}
		if len(history) > 40 {
			history = history[len(history)-40:]
		}
		if i%200 == 0 && other != nil {
			if v, err := other.Do("PING"); err != nil || (v.Kind != '+' && v.Kind != '$') {
				fail("c14-other-client", "a second client is no longer served", history)
			}
		}
		if len(sum.Samples) < 5 && len(args) > 2 {
			sum.Samples = append(sum.Samples, q(args))
		}
	}
	// pipelines: many requests written back to back, as many replies expected
	for round := 0; round < 5 && len(sum.Failures) == 0; round++ {
		var batch [][]string
		m := 200
		var buf []byte
		for i := 0; i < m; i++ {
			cg := grams[g.R.Intn(len(grams))]
			args := g.Vector(cg, 0.3)
			low := strings.ToLower(args[0])
			if low == "multi" || low == "exec" || low == "discard" {
				args = []string{"PING"}
			}
			batch = append(batch, args)
			buf = append(buf, hx.Encode(toBytes(args))...)
		}
		buf = append(buf, hx.Encode(toBytes([]string{"PING", "end-of-pipeline"}))...)
		_ = c.Conn.SetWriteDeadline(time.Now().Add(10 * time.Second))
		if _, err := c.Conn.Write(buf); err != nil {
			fail("c14-send", "pipeline write: "+err.Error(), batch)
			break
		}
		okp := true
		for i := 0; i < m; i++ {
			v, err := c.Recv(10 * time.Second)
			if err != nil {
				fail("c14-no-reply", fmt.Sprintf("pipeline of %d: no well-formed reply number %d (to %s): %v", m, i, q(batch[i]), err), batch)
				okp = false
				break
			}
			note(batch[i], v)
		}
		if okp {
			p, err := c.Recv(10 * time.Second)
			if err != nil || p.Kind != '$' || string(p.Str) != "end-of-pipeline" {
				fail("c14-out-of-step", "after a pipeline of "+strconv.Itoa(m)+" requests the closing PING was answered with "+p.Verbose(), batch)
			}
		}
	}
	// error paths must not use anything up: requests that failed while running (those met above
	// and scripted ones: aggregates and increments that produce a non-number) are repeated more
	// often than the server has pooled connections; reads and writes must keep being served
	if len(sum.Failures) == 0 {
		scripted := [][]string{
			{"DEL", "xa", "xb", "xd"}, {"ZADD", "xa", "inf", "m", "1", "n"}, {"ZADD", "xb", "-inf", "m", "2", "n"},
		}
		for _, a := range scripted {
			exchange(c, a, 900000, &history)
		}
		provoke := [][]string{
			{"ZUNION", "2", "xa", "xb"}, {"ZINTER", "2", "xa", "xb"}, {"ZUNIONSTORE", "xd", "2", "xa", "xb"}, {"ZINTERSTORE", "xd", "2", "xa", "xb"},
			{"ZUNION", "2", "xa", "xb", "WITHSCORES"}, {"ZINCRBY", "xa", "-inf", "m"}, {"INCRBYFLOAT", "xa", "1"}, {"HINCRBYFLOAT", "xa", "f", "1"},
			{"RPOPLPUSH", "xa", "xb"}, {"SMOVE", "xa", "xb", "m"}, {"LINSERT", "xa", "before", "m", "x"},
		}
		provoke = append(provoke, errReqs...)
		probe := newConn()
		for pi, a := range provoke {
			if len(sum.Failures) > 0 || probe == nil {
				break
			}
			for rep := 0; rep < 24 && len(sum.Failures) == 0; rep++ {
				if _, okx := exchange(c, a, 910000+pi*100+rep, &history); !okx {
					break
				}
			}
			sum.ErrorPathRepeats++
			for _, pr := range [][]string{{"SET", "xprobe", "1"}, {"GET", "xprobe"}, {"ZRANGE", "xa", "0", "-1"}, {"SCARD", "xprobe2"}} {
				if err := probe.Send(toBytes(pr)); err != nil {
					fail("c14-other-client", "cannot send on a second connection: "+err.Error(), history)
					break
				}
				if _, err := probe.Recv(4 * time.Second); err != nil {
					fail("c14-hang", fmt.Sprintf("after %s had been sent 24 times (each answered), %s on another connection got no reply within 4 s: %v", q(a), q(pr), err), append(history, a, pr))
					break
				}
			}
		}
		if probe != nil {
			probe.Close()
		}
	}
	// very large requests and requests the storage refuses while they run: tens of thousands of
	// arguments (more than SQLite takes variables), patterns too long for GLOB - alone and inside a
	// block.  One well-formed reply each (a value or an error), the connection in step, the
	// server alive, other clients served.
	if len(sum.Failures) == 0 {
		c14Large(c, newConn, grams, &history, srv)
	}
	// transaction blocks with hostile content: one reply per request inside the
	// block (QUEUED or an error), one reply to EXEC, and the connection in step afterwards
	for round := 0; round < n/20 && len(sum.Failures) == 0; round++ {
		tc := newConn()
		if tc == nil {
			fail("c14-server-down", "cannot connect", nil)
			break
		}
		var script [][]string
		one := func(args []string) (hx.RV, bool) {
			script = append(script, args)
			if err := tc.Send(toBytes(args)); err != nil {
				fail("c14-send", "cannot send "+q(args)+": "+err.Error(), script)
				return hx.RV{}, false
			}
			v, err := tc.Recv(5 * time.Second)
			if err != nil {
				fail("c14-no-reply", "no complete well-formed reply to "+q(args)+" inside a transaction block: "+err.Error(), script)
				return hx.RV{}, false
			}
			note(args, v)
			return v, true
		}
		okb := true
		if v, okx := one([]string{"MULTI"}); !okx || v.Canon() != "+OK" {
			okb = false
		}
		k := 1 + g.R.Intn(4)
		if round%10 == 0 {
			k = 0 // an empty block
		}
		for i := 0; i < k && okb; i++ {
			cg := grams[g.R.Intn(len(grams))]
			args := g.Vector(cg, 0.2)
			low := strings.ToLower(args[0])
			if low == "multi" || low == "exec" || low == "discard" {
				continue
			}
			if _, okx := one(args); !okx {
				okb = false
			}
		}
		if okb {
			if _, okx := one([]string{"EXEC"}); okx {
				tok := fmt.Sprintf("after-exec-%d", round)
				p, okp := one([]string{"PING", tok})
				if okp && (p.Kind != '$' || string(p.Str) != tok) {
					fail("c14-out-of-step", fmt.Sprintf("after EXEC the sentinel PING %s was answered with %s: the connection is out of step (the reply to EXEC was not one complete value)", tok, p.Verbose()), script)
				}
			}
		}
		tc.Close()
	}
	if len(sum.Failures) == 0 {
		c14BlockedStorage()
	}
	if len(sum.Failures) == 0 && !srv.Alive() {
		fail("c14-server-down", "the server is not alive at the end of the run", history)
	}
	if other != nil {
		other.Close()
	}
	c.Close()
	sum.Scripts = sent
}

// c14BlockedStorage: a server on a database FILE whose write lock is held by someone else for
// longer than the busy timeout.  A write and an EXEC of a queued block cannot start their
// transaction: each is answered with ONE complete reply (an error, or an array), and the
// connection stays in step.
func c14BlockedStorage() {
	dir, err := os.MkdirTemp("", "wirerun-c14b-")
	if err != nil {
		return
	}
	defer os.RemoveAll(dir)
	path := filepath.Join(dir, "blocked.db")
	srv, err := hx.StartServer(path)
	if err != nil {
		fail("harness", err.Error(), nil)
		return
	}
	defer srv.Stop()
	c, err := hx.Dial(srv.Addr)
	if err != nil {
		fail("harness", err.Error(), nil)
		return
	}
	defer c.Close()
	var hist [][]string
	do := func(timeout time.Duration, args ...string) (hx.RV, bool) {
		hist = append(hist, args)
		if err := c.Send(toBytes(args)); err != nil {
			fail("c14-send", err.Error(), hist)
			return hx.RV{}, false
		}
		v, err := c.Recv(timeout)
		if err != nil {
			fail("c14-no-reply", "while another process holds the database's write lock: no complete well-formed reply to "+q(args)+": "+err.Error(), hist)
			return hx.RV{}, false
		}
		return v, true
	}
	if _, ok := do(5*time.Second, "SET", "a", "0"); !ok {
		return
	}
	raw, err := sql.Open("sqlite3", path+"?_busy_timeout=100")
	if err != nil {
		return
	}
	defer raw.Close()
	raw.SetMaxOpenConns(1)
	if _, err := raw.Exec("BEGIN IMMEDIATE"); err != nil {
		return // the lock could not be taken: nothing learnt
	}
	released := false
	defer func() {
		if !released {
			_, _ = raw.Exec("ROLLBACK")
		}
	}()
	for _, st := range [][]string{{"MULTI"}, {"SET", "a", "1"}, {"INCR", "b"}} {
		if _, ok := do(5*time.Second, st...); !ok {
			return
		}
	}
	ex, ok := do(20*time.Second, "EXEC")
	if !ok {
		return
	}
	sum.Handled++
	if ex.Kind != '*' && ex.Kind != '-' {
		fail("c14-reply", "EXEC of a block that could not start its transaction answered "+ex.Verbose(), hist)
		return
	}
	p, ok := do(5*time.Second, "PING", "after-blocked-exec")
	if ok && (p.Kind != '$' || string(p.Str) != "after-blocked-exec") {
		fail("c14-out-of-step", "after an EXEC that could not start its transaction (reply "+ex.Verbose()+") the sentinel PING was answered with "+p.Verbose()+": the connection is out of step", hist)
		return
	}
	w, ok := do(20*time.Second, "SET", "a", "2")
	if !ok {
		return
	}
	sum.Handled++
	if w.Kind != '-' && w.Kind != '+' {
		fail("c14-reply", "a write that could not start its transaction answered "+w.Verbose(), hist)
		return
	}
	_, _ = raw.Exec("ROLLBACK")
	released = true
	if v, ok := do(5*time.Second, "GET", "a"); ok && !(v.Kind == '$' && string(v.Str) == "0") {
		if !(w.Kind == '+' && string(v.Str) == "2") {
			fail("c14-reply", "after the blocked block and write (answered "+ex.Canon()+" and "+w.Canon()+") the key holds "+v.Verbose(), hist)
		}
	}
	sum.BlockedStorage++
}

func c14Large(c *hx.Client, newConn func() *hx.Client, grams []*hx.CmdGrammar, history *[][]string, srv *hx.Server) {
	known := map[string]bool{}
	for _, cg := range grams {
		known[cg.Name] = true
	}
	many := func(prefix string, n int) []string {
		out := make([]string, n)
		for i := range out {
			out[i] = prefix + strconv.Itoa(i)
		}
		return out
	}
	pairs := func(n int) []string {
		out := make([]string, 0, 2*n)
		for i := 0; i < n; i++ {
			out = append(out, "bigk"+strconv.Itoa(i), "v")
		}
		return out
	}
	scored := func(n int) []string {
		out := make([]string, 0, 2*n)
		for i := 0; i < n; i++ {
			out = append(out, strconv.Itoa(i), "m"+strconv.Itoa(i))
		}
		return out
	}
	longPat := "*" + strings.Repeat("a", 60000)
	type big struct {
		label string
		args  []string
	}
	N := 40000
	reqs := []big{
		{"SADD bigset a b c", []string{"SADD", "bigset", "a", "b", "c"}},
		{"HSET bighash f v", []string{"HSET", "bighash", "f", "v"}},
		{"ZADD bigz 1 m", []string{"ZADD", "bigz", "1", "m"}},
		{"RPUSH biglist a", []string{"RPUSH", "biglist", "a"}},
		{"SET bigstr v", []string{"SET", "bigstr", "v"}},
		{"DEL <40000 keys>", append([]string{"DEL"}, many("bigk", N)...)},
		{"EXISTS <40000 keys>", append([]string{"EXISTS"}, many("bigk", N)...)},
		{"MGET <40000 keys>", append([]string{"MGET"}, many("bigk", N)...)},
		{"MSET <40000 pairs>", append([]string{"MSET"}, pairs(N)...)},
		{"DEL <40000 keys> (now existing)", append([]string{"DEL"}, many("bigk", N)...)},
		{"SADD bigset <40000 members>", append([]string{"SADD", "bigset"}, many("m", N)...)},
		{"SREM bigset <40000 members>", append([]string{"SREM", "bigset"}, many("m", N)...)},
		{"SINTER <40000 keys>", append([]string{"SINTER"}, many("bigk", N)...)},
		{"SUNION <40000 keys>", append([]string{"SUNION"}, many("bigk", N)...)},
		{"SDIFFSTORE bigdest <40000 keys>", append([]string{"SDIFFSTORE", "bigdest"}, many("bigk", N)...)},
		{"HDEL bighash <40000 fields>", append([]string{"HDEL", "bighash"}, many("f", N)...)},
		{"HMGET bighash <40000 fields>", append([]string{"HMGET", "bighash"}, many("f", N)...)},
		{"HSET bighash <40000 pairs>", append([]string{"HSET", "bighash"}, pairs(N)...)},
		{"ZADD bigz <40000 pairs>", append([]string{"ZADD", "bigz"}, scored(N)...)},
		{"ZREM bigz <40000 members>", append([]string{"ZREM", "bigz"}, many("m", N)...)},
		{"ZUNION 40000 <40000 keys>", append([]string{"ZUNION", strconv.Itoa(N)}, many("bigk", N)...)},
		{"RPUSH biglist <40000 elements>", append([]string{"RPUSH", "biglist"}, many("e", N)...)},
		{"KEYS <60001-byte pattern>", []string{"KEYS", longPat}},
		{"SCAN 0 MATCH <60001-byte pattern>", []string{"SCAN", "0", "MATCH", longPat}},
		{"SSCAN bigset 0 MATCH <60001-byte pattern>", []string{"SSCAN", "bigset", "0", "MATCH", longPat}},
		{"HSCAN bighash 0 MATCH <60001-byte pattern>", []string{"HSCAN", "bighash", "0", "MATCH", longPat}},
		{"ZSCAN bigz 0 MATCH <60001-byte pattern>", []string{"ZSCAN", "bigz", "0", "MATCH", longPat}},
		{"SET <1 MB key> v", []string{"SET", strings.Repeat("k", 1<<20), "v"}},
		// the largest integers where a count, a limit, an index or a time-to-live is expected
		{"ZRANGEBYSCORE bigz -inf +inf LIMIT 0 maxint", []string{"ZRANGEBYSCORE", "bigz", "-inf", "+inf", "LIMIT", "0", "9223372036854775807"}},
		{"ZREVRANGEBYSCORE bigz +inf -inf LIMIT 0 maxint", []string{"ZREVRANGEBYSCORE", "bigz", "+inf", "-inf", "LIMIT", "0", "9223372036854775807"}},
		{"ZRANGE bigz -inf +inf BYSCORE LIMIT maxint maxint", []string{"ZRANGE", "bigz", "-inf", "+inf", "BYSCORE", "LIMIT", "9223372036854775807", "9223372036854775807"}},
		{"ZRANGE bigz 0 maxint", []string{"ZRANGE", "bigz", "0", "9223372036854775807"}},
		// an offset beyond the number of matches, with no count / a zero count / a negative count
		{"ZADD smallz 1 a 2 b 3 c", []string{"ZADD", "smallz", "1", "a", "2", "b", "3", "c"}},
		{"ZRANGEBYSCORE smallz -inf +inf LIMIT 5 0", []string{"ZRANGEBYSCORE", "smallz", "-inf", "+inf", "LIMIT", "5", "0"}},
		{"ZRANGEBYSCORE smallz -inf +inf LIMIT 5 -1", []string{"ZRANGEBYSCORE", "smallz", "-inf", "+inf", "LIMIT", "5", "-1"}},
		{"ZREVRANGEBYSCORE smallz +inf -inf LIMIT 4 -1", []string{"ZREVRANGEBYSCORE", "smallz", "+inf", "-inf", "LIMIT", "4", "-1"}},
		{"ZRANGE smallz -inf +inf BYSCORE LIMIT 7 0", []string{"ZRANGE", "smallz", "-inf", "+inf", "BYSCORE", "LIMIT", "7", "0"}},
		{"ZRANGE smallz -inf +inf BYSCORE REV LIMIT 7 -1", []string{"ZRANGE", "smallz", "-inf", "+inf", "BYSCORE", "REV", "LIMIT", "7", "-1"}},
		{"ZRANGEBYSCORE smallz 2 1", []string{"ZRANGEBYSCORE", "smallz", "2", "1"}},
		{"ZRANGEBYSCORE smallz inf -inf", []string{"ZRANGEBYSCORE", "smallz", "inf", "-inf"}},
		{"ZRANGE smallz 5 1", []string{"ZRANGE", "smallz", "5", "1"}},
		{"LRANGE biglist 5 1", []string{"LRANGE", "biglist", "5", "1"}},
		{"ZCOUNT smallz 2 1", []string{"ZCOUNT", "smallz", "2", "1"}},
		{"ZREMRANGEBYSCORE smallz 2 1", []string{"ZREMRANGEBYSCORE", "smallz", "2", "1"}},
		{"ZREMRANGEBYRANK smallz 5 1", []string{"ZREMRANGEBYRANK", "smallz", "5", "1"}},
		{"ZRANGEBYSCORE nokey -inf +inf LIMIT 0 maxint", []string{"ZRANGEBYSCORE", "nokey", "-inf", "+inf", "LIMIT", "0", "9223372036854775807"}},
		{"SCAN 0 COUNT maxint", []string{"SCAN", "0", "COUNT", "9223372036854775807"}},
		{"SSCAN bigset 0 COUNT maxint", []string{"SSCAN", "bigset", "0", "COUNT", "9223372036854775807"}},
		{"HSCAN bighash 0 COUNT maxint", []string{"HSCAN", "bighash", "0", "COUNT", "9223372036854775807"}},
		{"ZSCAN bigz 0 COUNT maxint", []string{"ZSCAN", "bigz", "0", "COUNT", "9223372036854775807"}},
		{"SCAN maxint", []string{"SCAN", "9223372036854775807"}},
		{"LRANGE biglist 0 maxint", []string{"LRANGE", "biglist", "0", "9223372036854775807"}},
		{"LRANGE biglist minint maxint", []string{"LRANGE", "biglist", "-9223372036854775808", "9223372036854775807"}},
		{"LTRIM biglist minint maxint", []string{"LTRIM", "biglist", "-9223372036854775808", "9223372036854775807"}},
		{"LINDEX biglist maxint", []string{"LINDEX", "biglist", "9223372036854775807"}},
		{"LSET biglist minint v", []string{"LSET", "biglist", "-9223372036854775808", "v"}},
		{"LREM biglist maxint a", []string{"LREM", "biglist", "9223372036854775807", "a"}},
		{"LREM biglist minint a", []string{"LREM", "biglist", "-9223372036854775808", "a"}},
		{"ZREMRANGEBYRANK bigz 0 maxint", []string{"ZREMRANGEBYRANK", "bigz", "0", "9223372036854775807"}},
		{"ZREMRANGEBYRANK bigz minint maxint", []string{"ZREMRANGEBYRANK", "bigz", "-9223372036854775808", "9223372036854775807"}},
		{"EXPIRE bigstr maxint", []string{"EXPIRE", "bigstr", "9223372036854775807"}},
		{"PEXPIRE bigstr maxint", []string{"PEXPIRE", "bigstr", "9223372036854775807"}},
		{"EXPIREAT bigstr maxint", []string{"EXPIREAT", "bigstr", "9223372036854775807"}},
		{"SET bigstr v EX maxint", []string{"SET", "bigstr", "v", "EX", "9223372036854775807"}},
		{"SET bigstr v PX maxint", []string{"SET", "bigstr", "v", "PX", "9223372036854775807"}},
		{"SETEX bigstr maxint v", []string{"SETEX", "bigstr", "9223372036854775807", "v"}},
		{"INCRBY bigstr maxint", []string{"INCRBY", "bigstr", "9223372036854775807"}},
		{"DECRBY bigstr minint", []string{"DECRBY", "bigstr", "-9223372036854775808"}},
		{"ZUNION maxint bigz", []string{"ZUNION", "9223372036854775807", "bigz"}},
		{"ZINTERSTORE d maxint bigz", []string{"ZINTERSTORE", "d", "9223372036854775807", "bigz"}},
		{"SPOP bigset maxint", []string{"SPOP", "bigset", "9223372036854775807"}},
		{"LPOP biglist maxint", []string{"LPOP", "biglist", "9223372036854775807"}},
		{"GET <1 MB key>", []string{"GET", strings.Repeat("k", 1<<20)}},
	}
	// a request the storage refuses with an error of its own while the command runs: LINSERT
	// before the same element until no position is left between two neighbours (the recorded
	// finding about lists; whatever the outcome, it is one reply)
	if known["linsert"] && known["rpush"] {
		for _, st := range [][]string{{"DEL", "exl"}, {"RPUSH", "exl", "a"}, {"RPUSH", "exl", "b"}} {
			reqs = append(reqs, big{strings.Join(st, " "), st})
		}
		for j := 0; j < 60; j++ {
			st := []string{"LINSERT", "exl", "BEFORE", "b", fmt.Sprintf("x%d", j)}
			reqs = append(reqs, big{strings.Join(st, " "), st})
		}
	}
	sendOne := func(cl *hx.Client, b big, what string) (hx.RV, bool) {
		*history = append(*history, []string{b.label})
		if err := cl.Send(toBytes(b.args)); err != nil {
			fail("c14-send", "cannot send "+b.label+": "+err.Error(), *history)
			return hx.RV{}, false
		}
		v, err := cl.Recv(30 * time.Second)
		if err != nil {
			if !srv.Alive() {
				fail("c14-server-down", "the server no longer answers after "+b.label+what, *history)
			} else {
				fail("c14-no-reply", "no complete well-formed reply to "+b.label+what+": "+err.Error(), *history)
			}
			return hx.RV{}, false
		}
		sum.LargeRequests++
		return v, true
	}
	ping := func(cl *hx.Client, tok, after string) bool {
		p, err := cl.Do("PING", tok)
		if err != nil || p.Kind != '$' || string(p.Str) != tok {
			fail("c14-out-of-step", fmt.Sprintf("after %s the sentinel PING %s was answered with %s: the connection is out of step", after, tok, p.Verbose()), *history)
			return false
		}
		return true
	}
	for i, b := range reqs {
		if !known[strings.ToLower(b.args[0])] || len(sum.Failures) > 0 {
			continue
		}
		v, ok := sendOne(c, b, "")
		if !ok {
			return
		}
		if !ping(c, fmt.Sprintf("large-%d", i), b.label+" (reply "+v.Verbose()[:min(60, len(v.Verbose()))]+")") {
			return
		}
		// the same request queued in a block: QUEUED (or an error), then one array for EXEC
		tc := newConn()
		if tc == nil {
			fail("c14-server-down", "cannot connect after "+b.label, *history)
			return
		}
		if m, err := tc.Do("MULTI"); err == nil && m.Canon() == "+OK" {
			if _, ok := sendOne(tc, b, " inside a block"); ok {
				e, err := tc.Do("EXEC")
				if err != nil || e.Kind != '*' && e.Kind != '-' {
					fail("c14-no-reply", "no complete well-formed reply to EXEC of a block holding "+b.label+": "+fmt.Sprint(err), *history)
				} else {
					ping(tc, fmt.Sprintf("large-block-%d", i), "EXEC of a block holding "+b.label)
				}
			}
		}
		tc.Close()
	}
}

// ---------- C15 ----------

// the alphabet of connection scripts
const (
	sMULTI = iota
	sEXEC
	sDISCARD
	sW // a write that succeeds
	sF // a write that parses but fails when it runs
	sU // an unparsable command
	sR // a read
	sK // a command name the server does not know (parses, is queued, fails when run)
	nSym
)

var symName = []string{"MULTI", "EXEC", "DISCARD", "W", "F", "U", "R", "K"}

type refConn struct {
	inMulti bool
	queue   []int
}

// refModel is the reference: one counter key per script ("c<id>") that W
// increments, a list key ("l<id>") that F tries to INCR (type error).
type refModel struct {
	counter int64
}

func (m *refModel) cmdFor(sym int, id string) []string {
	switch sym {
	case sMULTI:
		return []string{"MULTI"}
	case sEXEC:
		return []string{"EXEC"}
	case sDISCARD:
		return []string{"DISCARD"}
	case sW:
		return []string{"INCR", "c" + id}
	case sF:
		return []string{"INCR", "l" + id}
	case sU:
		return []string{"SET", "c" + id}
	case sK:
		return []string{"APPEND", "c" + id, "x"}
	default:
		return []string{"GET", "c" + id}
	}
}

// expected reply of a command executed now against the reference
func (m *refModel) run(sym int) string {
	switch sym {
	case sW:
		m.counter++
		return ":" + strconv.FormatInt(m.counter, 10)
	case sF, sK:
		return "-ERR"
	case sR:
		if m.counter == 0 {
			return "$nil"
		}
		return "$" + fmt.Sprintf("%x", strconv.FormatInt(m.counter, 10))
	}
	return "?"
}

// step returns the expected canonical reply.
func (rc *refConn) step(sym int, m *refModel) string {
	if rc.inMulti {
		switch sym {
		case sMULTI:
			return "-ERR"
		case sDISCARD:
			rc.inMulti = false
			rc.queue = nil
			return "+OK"
		case sU:
			return "-ERR"
		case sEXEC:
			rc.inMulti = false
			qd := rc.queue
			rc.queue = nil
			// atomic: if any queued command fails, none of the effects is kept
			saved := m.counter
			parts := make([]string, 0, len(qd))
			failed := false
			for _, s := range qd {
				if failed {
					parts = append(parts, "-ERR")
					continue
				}
				r := m.run(s)
				parts = append(parts, r)
				if r == "-ERR" {
					failed = true
				}
			}
			if failed {
				m.counter = saved
			}
			return "*[" + strings.Join(parts, " ") + "]"
		default:
			rc.queue = append(rc.queue, sym)
			return "+QUEUED"
		}
	}
	switch sym {
	case sMULTI:
		rc.inMulti = true
		return "+OK"
	case sEXEC, sDISCARD, sU:
		return "-ERR"
	default:
		return m.run(sym)
	}
}

func runC15(seed int64, n int) {
	srv, err := hx.StartServer("")
	if err != nil {
		fail("harness", err.Error(), nil)
		return
	}
	defer srv.Stop()
	setup, err := hx.Dial(srv.Addr)
	if err != nil {
		fail("harness", err.Error(), nil)
		return
	}
	defer setup.Close()
	// enumerate all scripts up to length L, L chosen so that the count stays within n
	L := 1
	total := nSym
	for total*nSym+nSym <= n && L < 6 {
		L++
		total = total*nSym + nSym
	}
	id := 0
	var rec func(prefix []int)
	runScript := func(script []int) {
		id++
		sid := strconv.Itoa(id)
		sum.Scripts++
		// the failing write needs a key of another type
		if v, err := setup.Do("RPUSH", "l"+sid, "x"); err != nil || v.Kind != ':' {
			fail("harness", "setup failed", nil)
			return
		}
		c, err := hx.Dial(srv.Addr)
		if err != nil {
			fail("c15-connect", err.Error(), nil)
			return
		}
		defer c.Close()
		rc := &refConn{}
		m := &refModel{}
		var hist [][]string
		for _, sym := range script {
			args := m.cmdFor(sym, sid)
			hist = append(hist, args)
			want := rc.step(sym, m)
			if err := c.Send(toBytes(args)); err != nil {
				fail("c15-send", err.Error(), hist)
				return
			}
			got, err := c.Recv(5 * time.Second)
			if err != nil {
				fail("c15-no-reply", fmt.Sprintf("script %v: no well-formed reply to %s: %v", names(script), q(args), err), hist)
				return
			}
			note(args, got)
			if got.Canon() != want {
				fail("c15-reply", fmt.Sprintf("script %v: %s answered %s, the reference machine says %s", names(script), q(args), got.Verbose(), want), hist)
				return
			}
		}
		// the connection must still be in step, and the data must be what the reference holds
		if rc.inMulti {
			hist = append(hist, []string{"DISCARD"})
			if v, err := c.Do("DISCARD"); err != nil || v.Canon() != "+OK" {
				fail("c15-reply", fmt.Sprintf("script %v: closing DISCARD answered %s", names(script), v.Verbose()), hist)
				return
			}
		}
		v, err := setup.Do("GET", "c"+sid)
		want := "$nil"
		if m.counter != 0 {
			want = "$" + fmt.Sprintf("%x", strconv.FormatInt(m.counter, 10))
		}
		if err != nil || v.Canon() != want {
			fail("c15-state", fmt.Sprintf("script %v: afterwards the counter reads %s, the reference holds %d", names(script), v.Verbose(), m.counter), hist)
		}
	}
	rec = func(prefix []int) {
		if len(sum.Failures) > 0 {
			return
		}
		if len(prefix) > 0 {
			runScript(prefix)
		}
		if len(prefix) == L {
			return
		}
		for s := 0; s < nSym; s++ {
			rec(append(append([]int{}, prefix...), s))
		}
	}
	rec(nil)
	// longer scripts (up to length 6) over the reduced alphabet {MULTI, EXEC, DISCARD, ok-write}
	if n >= 3000 {
		small := []int{sMULTI, sEXEC, sDISCARD, sW}
		var rec2 func(prefix []int, depth int)
		rec2 = func(prefix []int, depth int) {
			if len(sum.Failures) > 0 {
				return
			}
			if len(prefix) == depth {
				runScript(prefix)
				return
			}
			for _, s := range small {
				rec2(append(append([]int{}, prefix...), s), depth)
			}
		}
		for depth := L + 1; depth <= 6; depth++ {
			rec2(nil, depth)
		}
	}

	// sequences of blocks on one connection: a block (MULTI, up to two commands out of
	// {W, F, U, R, K}, EXEC or DISCARD), optionally a plain command, then a second block (up to one
	// command): whatever the first block did - failed, was discarded, held an unparsable command -
	// the second starts from an empty queue
	{
		body := []int{sW, sF, sU, sR, sK}
		var bodies [][]int
		bodies = append(bodies, nil)
		for _, a := range body {
			bodies = append(bodies, []int{a})
		}
		for _, a := range body {
			for _, b := range body {
				bodies = append(bodies, []int{a, b})
			}
		}
		for _, b1 := range bodies {
			for _, t1 := range []int{sEXEC, sDISCARD} {
				for bi, b2 := range bodies[:6] {
					for _, t2 := range []int{sEXEC, sDISCARD} {
						if len(sum.Failures) > 0 {
							break
						}
						script := append([]int{sMULTI}, b1...)
						script = append(script, t1)
						if (bi+t2)%2 == 0 {
							script = append(script, sW)
						}
						script = append(script, sMULTI)
						script = append(script, b2...)
						script = append(script, t2, sR)
						runScript(script)
						sum.BlockSequences++
					}
				}
			}
		}
	}

	// a connection that dies inside MULTI leaves nothing to the connections accepted after it
	for round := 0; round < 30 && len(sum.Failures) == 0; round++ {
		id++
		sid := strconv.Itoa(id)
		a, err := hx.Dial(srv.Addr)
		if err != nil {
			fail("c15-connect", err.Error(), nil)
			break
		}
		_, _ = a.Do("MULTI")
		for i := 0; i < round%3; i++ {
			_, _ = a.Do("INCR", "c"+sid)
		}
		a.Close()
		time.Sleep(2 * time.Millisecond)
		for k := 0; k < 3; k++ {
			b, err := hx.Dial(srv.Addr)
			if err != nil {
				fail("c15-connect", err.Error(), nil)
				break
			}
			v, err := b.Do("INCR", "c"+sid)
			if err != nil || v.Kind != ':' || v.Int != int64(k+1) {
				fail("c15-reply", fmt.Sprintf("a connection accepted after another one had died inside MULTI: INCR answered %s, a fresh connection is not in MULTI mode (expected :%d)", v.Verbose(), k+1), nil)
				b.Close()
				break
			}
			e, _ := b.Do("EXEC")
			if e.Kind != '-' {
				fail("c15-reply", "a connection accepted after another one had died inside MULTI: EXEC without MULTI answered "+e.Verbose(), nil)
			}
			b.Close()
		}
		sum.Scripts++
	}

	// two connections interleaved: A queues a block while B runs commands
	r := rand.New(rand.NewSource(seed))
	for round := 0; round < n/10 && len(sum.Failures) == 0; round++ {
		id++
		sid := strconv.Itoa(id)
		sum.Scripts++
		_, _ = setup.Do("RPUSH", "l"+sid, "x")
		a, errA := hx.Dial(srv.Addr)
		b, errB := hx.Dial(srv.Addr)
		if errA != nil || errB != nil {
			fail("c15-connect", "cannot open two connections", nil)
			return
		}
		ra, rb := &refConn{}, &refConn{}
		m := &refModel{}
		var hist [][]string
		la, lb := 2+r.Intn(4), 1+r.Intn(4)
		ia, ib := 0, 0
		// A's script always starts a block and ends it
		scriptA := []int{sMULTI}
		for i := 0; i < la; i++ {
			scriptA = append(scriptA, []int{sW, sW, sF, sR, sU, sMULTI}[r.Intn(6)])
		}
		scriptA = append(scriptA, []int{sEXEC, sEXEC, sDISCARD}[r.Intn(3)])
		var scriptB []int
		for i := 0; i < lb; i++ {
			scriptB = append(scriptB, []int{sW, sR, sF, sEXEC, sDISCARD, sW}[r.Intn(6)])
		}
		for ia < len(scriptA) || ib < len(scriptB) {
			useA := ib >= len(scriptB) || (ia < len(scriptA) && r.Intn(2) == 0)
			var c *hx.Client
			var rc *refConn
			var sym int
			who := "B"
			if useA {
				c, rc, sym, who = a, ra, scriptA[ia], "A"
				ia++
			} else {
				c, rc, sym = b, rb, scriptB[ib]
				ib++
			}
			args := m.cmdFor(sym, sid)
			hist = append(hist, append([]string{who + ":"}, args...))
			want := rc.step(sym, m)
			if err := c.Send(toBytes(args)); err != nil {
				fail("c15-send", err.Error(), hist)
				break
			}
			got, err := c.Recv(5 * time.Second)
			if err != nil {
				fail("c15-no-reply", fmt.Sprintf("two connections: no well-formed reply to %s on %s: %v", q(args), who, err), hist)
				break
			}
			note(args, got)
			if got.Canon() != want {
				fail("c15-reply", fmt.Sprintf("two connections: %s on %s answered %s, the reference machine says %s", q(args), who, got.Verbose(), want), hist)
				break
			}
		}
		a.Close()
		b.Close()
	}
	if len(sum.Failures) == 0 && !srv.Alive() {
		fail("c14-server-down", "the server is not alive at the end of the run", nil)
	}
}

func names(script []int) []string {
	out := make([]string, len(script))
	for i, s := range script {
		out[i] = symName[s]
	}
	return out
}

// ---------- C13 ----------

func runC13(seed int64, n int, grams []*hx.CmdGrammar) {
	dir, err := os.MkdirTemp("", "wirerun-c13-")
	if err != nil {
		fail("harness", err.Error(), nil)
		return
	}
	defer os.RemoveAll(dir)
	srvPath := filepath.Join(dir, "server.db")
	srv, err := hx.StartServer(srvPath)
	if err != nil {
		fail("harness", err.Error(), nil)
		return
	}
	defer srv.Stop()
	twin, err := redka.Open(fmt.Sprintf("file:/wirerun_twin_%d.db?vfs=memdb", time.Now().UnixNano()), nil)
	if err != nil {
		fail("harness", err.Error(), nil)
		return
	}
	defer twin.Close()
	c, err := hx.Dial(srv.Addr)
	if err != nil {
		fail("harness", err.Error(), nil)
		return
	}
	defer c.Close()
	g := &hx.WireGen{R: rand.New(rand.NewSource(seed)), Keys: []string{"k1", "k2", "k3", "k4"}, NowSec: time.Now().Unix()}
	var hist [][]string
	// two in-process databases behind the recording driver (see the statement comparison in one())
	sqlCmd, _ := hx.OpenMemDriver("c13sqla", hx.FaultDriverName)
	sqlAPI, _ := hx.OpenMemDriver("c13sqlb", hx.FaultDriverName)
	if sqlCmd != nil && sqlAPI != nil {
		defer sqlCmd.Close()
		defer sqlAPI.Close()
	} else {
		sqlCmd = nil
	}
	// (random choices, and the scans, whose page depends on row ids that differ after multi-pair writes)
	sqlSeen := map[string]bool{}
	sqlSkip := map[string]bool{"spop": true, "srandmember": true, "randomkey": true, "scan": true, "sscan": true, "hscan": true, "zscan": true, "flushdb": true, "flushall": true}
	// one request: send, compare the reply with the oracle's, compare the stored content
	one := func(i int, args []string) bool {
		low := strings.ToLower(args[0])
		hist = append(hist, args)
		if len(hist) > 60 {
			hist = hist[len(hist)-60:]
		}
		if err := c.Send(toBytes(args)); err != nil {
			fail("c13-send", err.Error(), hist)
			return false
		}
		got, err := c.Recv(5 * time.Second)
		if err != nil {
			fail("c13-no-reply", "no well-formed reply to "+q(args)+": "+err.Error(), hist)
			return false
		}
		note(args, got)
		lastReply = got
		want, handled := hx.WireOracle(twin, toBytes(args))
		if low == "dbsize" {
			handled = false // counts expired-but-stored keys, which the two background cleaners remove at different times
		}
		// the same request once more in-process on two traced databases: through the server's
		// parse-and-run code, and through the documented API call - they must issue the same
		// statements with the same arguments (whatever data happens to be there)
		if sqlCmd != nil && (!handled || sqlSkip[low] || knownWireFinding(args) != "") {
			// not compared: keep the two traced databases in the same state
			switch low {
			case "srandmember", "randomkey":
			case "spop":
				if got.Kind == '$' && !got.Null && len(args) == 2 {
					_, _ = sqlCmd.DB.Set().Delete(args[1], got.Str)
					_, _ = sqlAPI.DB.Set().Delete(args[1], got.Str)
				}
			default:
				hx.ApplyThroughCommandLayer(sqlCmd.DB, toBytes(args))
				hx.ApplyThroughCommandLayer(sqlAPI.DB, toBytes(args))
			}
		} else if sqlCmd != nil {
			hx.Plan.SQL = true
			hx.Plan.Arm(0, 0, false)
			hx.ApplyThroughCommandLayer(sqlCmd.DB, toBytes(args))
			a := append([]string(nil), hx.Plan.Stmts...)
			hx.Plan.Disarm()
			hx.Plan.Arm(0, 0, false)
			_, _ = hx.WireOracle(sqlAPI.DB, toBytes(args))
			b := append([]string(nil), hx.Plan.Stmts...)
			hx.Plan.Disarm()
			hx.Plan.SQL = false
			a, b = normStmts(a), normStmts(b)
			if got.Kind == '-' {
				a, b = nil, nil // refused while running: how far it got may depend on the order a Go map is walked in
			}
			sum.SQLCompared++
			if os.Getenv("HX_SQLDEBUG") != "" {
				if strings.Join(a, "\n") != strings.Join(b, "\n") && !sqlSeen[low] {
					sqlSeen[low] = true
					fmt.Fprintf(os.Stderr, "SQLDIFF %s\n  cmd: %s\n  api: %s\n", q(args), strings.Join(a, " ;; "), strings.Join(b, " ;; "))
				}
			} else if strings.Join(a, "\n") != strings.Join(b, "\n") {
				fail("c13-mapping", fmt.Sprintf("%s: the command issues other statements than the documented API call\n command: %s\n API    : %s", q(args), strings.Join(a, " ;; "), strings.Join(b, " ;; ")), hist)
				return false
			}
		}
		if !handled {
			sum.Unhandled++
			// keep the twin in step
			if (low == "spop" || low == "srandmember") && len(args) == 2 {
				// a random choice: the reply must be a member of the set as the twin has it (null
				// when there is none); SPOP removes it - from the twin the member the server
				// removed -, SRANDMEMBER changes nothing (the content comparison sees a removal)
				members, merr := twin.Set().Items(args[1])
				isSet := true
				if k, kerr := twin.Key().Get(args[1]); kerr == nil && k.Type != 3 {
					isSet = false
				}
				if merr == nil && isSet {
					sum.Handled++
					if len(members) == 0 {
						if !(got.Kind == '$' && got.Null) {
							fail("c13-reply", q(args)+" on a key that holds no set answered "+got.Canon()+"; the documented reply is null", hist)
							return false
						}
					} else {
						in := false
						for _, m := range members {
							if got.Kind == '$' && !got.Null && string(m) == string(got.Str) {
								in = true
							}
						}
						if !in {
							fail("c13-reply", q(args)+" answered "+got.Canon()+", which is not a member of the set", hist)
							return false
						}
					}
				}
				if low == "spop" && got.Kind == '$' && !got.Null {
					_, _ = twin.Set().Delete(args[1], got.Str)
				}
				return true
			}
			if low == "randomkey" && len(args) == 1 {
				n, lerr := twin.Key().Len()
				if lerr == nil {
					if got.Kind == '$' && !got.Null {
						if ok, _ := twin.Key().Exists(string(got.Str)); !ok {
							fail("c13-reply", q(args)+" answered "+got.Canon()+", which is not an existing key", hist)
							return false
						}
					} else if !(got.Kind == '$' && got.Null && n == 0) && n > 0 && got.Kind != '$' {
						fail("c13-reply", q(args)+" answered "+got.Canon()+"; the documented reply is a key name or null", hist)
						return false
					}
				}
				return true
			}
			// otherwise run the same command through the server's own command
			// layer (weaker: no independent oracle)
			hx.ApplyThroughCommandLayer(twin, toBytes(args))
			return true
		}
		sum.Handled++
		gc, wc := got.Canon(), want.Canon()
		if hx.WireScan(low) && got.Kind == '*' && want.Kind == '*' && len(got.Arr) == 2 && len(want.Arr) == 2 {
			// scan pages follow row ids, which differ between server and twin after
			// multi-pair writes (Go map iteration order): compare complete listings
			// (both cursors 0) as multisets, and otherwise only the reply shape
			// ... and a first page (cursor argument 0) that is not full on either side is a complete listing too
			paired := low == "hscan" || low == "zscan"
			if got.Arr[0].Canon() == ":0" && want.Arr[0].Canon() == ":0" || scanFromStart(args) && pageNotFull(args, got.Arr[1], paired) && pageNotFull(args, want.Arr[1], paired) {
				gc, wc = sortedCanon(got.Arr[1], paired), sortedCanon(want.Arr[1], paired)
				sum.ScanListings++
			} else {
				gc, wc = "scan-page", "scan-page"
			}
		}
		if hx.WireUnordered(low) || hx.WirePaired(low) {
			gc, wc = sortedCanon(got, hx.WirePaired(low)), sortedCanon(want, hx.WirePaired(low))
		}
		if gc != wc {
			if kf := knownWireFinding(args); kf != "" {
				knownHits[kf]++
				return true
			}
			fail("c13-reply", fmt.Sprintf("%s answered %s; the documented API call, Redis-typed, gives %s", q(args), got.Verbose(), want.Verbose()), hist)
			return false
		}
		if i%3 == 0 || strings.HasPrefix(wc, "-") || n <= 5000 {
			sum.StateChecks++
			a, errA := hx.ContentOfFile(srvPath)
			b, errB := hx.ContentOfDB(twin)
			if errA != nil || errB != nil {
				fail("harness", fmt.Sprintf("cannot read content: %v %v", errA, errB), hist)
				return false
			}
			if same, why := hx.SameContent(a, b); !same {
				fail("c13-state", fmt.Sprintf("after %s the server's database differs from the twin driven through the Go API (%s)\n server: %s\n twin  : %s", q(args), why, a.Text, b.Text), hist)
				return false
			}
			// an absolute expiry involves no clock: where the documented API call stored exactly the
			// requested instant, the server must have stored it too
			if at, okAt := absoluteExpiry(args); okAt {
				k := "x" + hex.EncodeToString([]byte(args[1]))
				if eb, has := b.ETimes[k]; has && eb == at && a.ETimes[k] != at {
					fail("c13-state", fmt.Sprintf("after %s the key's expiry instant is %d on the server; the request and the documented API call say %d", q(args), a.ETimes[k], at), hist)
					return false
				}
			}
		}
		if len(sum.Samples) < 6 && len(args) > 2 {
			sum.Samples = append(sum.Samples, q(args)+" => "+got.Verbose())
		}
		return true
	}
	// (1) the option sweep: every command of the five data types and the key commands, without
	// options, with each option alone and with each pair of options, on a key of its type that has
	// a time-to-live and on a missing key
	c13Sweep(g, grams, one)
	// (1b) arguments that are bytes, not text and not numbers: multi-byte UTF-8, text that reads
	// as a number but is not its canonical spelling, control bytes - as value, member and field
	// of every command that takes one, followed by the lookups that must find exactly those bytes
	if len(sum.Failures) == 0 {
		c13Bytes(grams, one)
	}
	// (1c) keys NAMED like the command's own option keywords (a key may be called "match")
	if len(sum.Failures) == 0 {
		c13KeywordKeys(g, grams, one)
	}
	// (2) random vectors
	for i := 0; i < n && len(sum.Failures) == 0; i++ {
		cg := grams[g.R.Intn(len(grams))]
		malformed := 0.15
		args := g.Vector(cg, malformed)
		low := strings.ToLower(args[0])
		if low == "multi" || low == "exec" || low == "discard" || low == "flushall" && g.R.Intn(4) != 0 || low == "flushdb" && g.R.Intn(4) != 0 {
			continue
		}
		if !one(i, args) {
			break
		}
	}
	// (3) MULTI blocks of real commands: a block in which a queued command fails when it runs
	// changes nothing; a block that runs through gives the replies and the content of the same
	// commands issued one by one (the twin gets them through the oracle)
	if len(sum.Failures) == 0 {
		c13Blocks(g, grams, c, twin, srvPath, n/40, &hist)
	}
	// (4) the last second of a key's life: TTL / PTTL / EXISTS / GET on a key whose expiry lies in
	// the current wall-clock second, then just after the expiry
	if len(sum.Failures) == 0 {
		c13LastSecond(c, &hist)
	}
	// (5) a queued command runs at EXEC: a relative time-to-live queued in a MULTI block counts
	// from the moment the block is executed, not from the moment it was queued
	if len(sum.Failures) == 0 {
		c13QueuedExpiry(c, srvPath, &hist)
	}
}

func c13QueuedExpiry(c *hx.Client, srvPath string, hist *[][]string) {
	do := func(args ...string) (hx.RV, bool) {
		*hist = append(*hist, args)
		if err := c.Send(toBytes(args)); err != nil {
			fail("c13-send", err.Error(), *hist)
			return hx.RV{}, false
		}
		got, err := c.Recv(5 * time.Second)
		if err != nil {
			fail("c13-no-reply", "no well-formed reply to "+q(args)+": "+err.Error(), *hist)
			return hx.RV{}, false
		}
		return got, true
	}
	cases := []struct {
		cmd []string
		ms  int64
	}{
		{[]string{"EXPIRE", "kq", "1000"}, 1000000},
		{[]string{"PEXPIRE", "kq", "2000000"}, 2000000},
		{[]string{"SET", "kq", "w", "EX", "3000"}, 3000000},
		{[]string{"SET", "kq", "w", "PX", "4000000"}, 4000000},
		{[]string{"SETEX", "kq", "5000", "w"}, 5000000},
		{[]string{"PSETEX", "kq", "6000000", "w"}, 6000000},
	}
	retried := map[int]bool{}
	for ci := 0; ci < len(cases); ci++ {
		cs := cases[ci]
		if _, ok := do("SET", "kq", "v"); !ok {
			return
		}
		if r, ok := do("MULTI"); !ok || r.Kind != '+' {
			return
		}
		r, ok := do(cs.cmd...)
		if !ok {
			return
		}
		if r.Kind != '+' || string(r.Str) != "QUEUED" {
			// not a command of this server: leave the block
			do("DISCARD")
			continue
		}
		time.Sleep(350 * time.Millisecond)
		t0 := time.Now().UnixMilli()
		if _, ok := do("EXEC"); !ok {
			return
		}
		t1 := time.Now().UnixMilli()
		a, err := hx.ContentOfFile(srvPath)
		if err != nil {
			continue
		}
		sum.Handled++
		et, has := a.ETimes["x"+hex.EncodeToString([]byte("kq"))]
		if !has || et < t0+cs.ms || et > t1+cs.ms {
			if !retried[ci] {
				// (a step of the wall clock during the 350 ms would look the same: once more)
				retried[ci] = true
				ci--
				continue
			}
			fail("c13-state", fmt.Sprintf("%s queued in a MULTI block and executed by an EXEC that ran between %d and %d (350 ms after it was queued) left the expiry instant %d; counted from the execution it lies in [%d, %d]",
				q(cs.cmd), t0, t1, et, t0+cs.ms, t1+cs.ms), *hist)
			return
		}
	}
	do("DEL", "kq")
	// a time-to-live too large for the clock arithmetic is refused (the documented error of SET)
	// and nothing changes
	for _, cmd := range [][]string{{"SET", "kbig", "new", "EX", "10000000000"}, {"SET", "kbig", "new", "PX", "9223372036855"}, {"SET", "kbig", "new", "EX", "9223372036854775807"},
		{"SET", "kbig", "new", "XX", "EX", "10000000000"}, {"SET", "kfresh", "new", "NX", "EX", "9223372036854775807"}} {
		if _, ok := do("SET", "kbig", "old", "EX", "5000"); !ok {
			return
		}
		do("DEL", "kfresh")
		before, err1 := hx.ContentOfFile(srvPath)
		r, ok := do(cmd...)
		if !ok {
			return
		}
		after, err2 := hx.ContentOfFile(srvPath)
		sum.Handled++
		if err1 != nil || err2 != nil {
			continue
		}
		if r.Kind != '-' {
			fail("c13-reply", fmt.Sprintf("%s answered %s; a time-to-live that overflows the clock arithmetic is refused with an error", q(cmd), r.Canon()), *hist)
			return
		}
		if same, why := hx.SameContent(before, after); !same {
			fail("c13-state", fmt.Sprintf("%s was refused (%s) and yet changed the database (%s)", q(cmd), r.Canon(), why), *hist)
			return
		}
	}
	do("DEL", "kbig", "kfresh")
}

// c13KeywordKeys: every command that has option keywords, on a key of its type that is NAMED like
// one of those keywords (both letter cases): without options and with each option alone.
func c13KeywordKeys(g *hx.WireGen, grams []*hx.CmdGrammar, one func(int, []string) bool) {
	saved := g.Keys
	defer func() { g.Keys = saved; g.CursorZero = false; g.ResetKeySeq() }()
	create := map[string]func(k string) [][]string{
		"string": func(k string) [][]string { return [][]string{{"SET", k, "10"}} },
		"list":   func(k string) [][]string { return [][]string{{"RPUSH", k, "a"}, {"RPUSH", k, "b"}, {"RPUSH", k, "c"}} },
		"set":    func(k string) [][]string { return [][]string{{"SADD", k, "p0", "p1", "p2", "a"}} },
		"hash":   func(k string) [][]string { return [][]string{{"HSET", k, "f1", "1", "f2", "b"}} },
		"zset":   func(k string) [][]string { return [][]string{{"ZADD", k, "1", "a", "2", "b", "3", "c"}} },
	}
	i := 0
	run := func(args []string) bool { i++; return one(3*i, args) }
	for _, cg := range grams {
		if cg.Combs == nil {
			continue
		}
		fam := cg.Parser
		if k := strings.Index(fam, "."); k >= 0 {
			fam = fam[:k]
		}
		if fam == "key" {
			fam = "string"
		}
		mk, ok := create[fam]
		kws := cg.Keywords()
		if !ok || len(kws) == 0 {
			continue
		}
		switch cg.Name {
		case "flushdb", "flushall", "randomkey", "spop", "srandmember":
			continue
		}
		g.CursorZero = true
		opts := cg.Options()
		seen := map[string]bool{}
		for _, kw := range kws {
			for _, name := range []string{strings.ToLower(kw), strings.ToUpper(kw)} {
				if seen[name] {
					continue
				}
				seen[name] = true
				if !run([]string{"DEL", name}) {
					return
				}
				for _, st := range mk(name) {
					if !run(st) {
						return
					}
				}
				g.Keys = []string{name}
				variants := [][]hx.OptChoice{{}}
				for _, o := range opts {
					variants = append(variants, []hx.OptChoice{o})
				}
				for _, v := range variants {
					g.ResetKeySeq(name)
					args := g.VectorOpts(cg, v)
					g.ResetKeySeq()
					sum.KeywordKeys++
					if !run(args) {
						return
					}
				}
				if !run([]string{"DEL", name}) {
					return
				}
			}
		}
	}
}

// normStmts prepares a recorded statement list for comparison: when the call writes, only the
// writing statements count (how a call looks things up before it writes is not part of the
// documented mapping; SET with an expiry may or may not read the old value first); the arguments
// of an IN list are sorted (they come out of a Go map); the list itself is sorted for the same reason.
func normStmts(st []string) []string {
	isWrite := func(s string) bool {
		l := strings.ToLower(s)
		return strings.HasPrefix(l, "exec:") || strings.Contains(l, ": insert ") || strings.Contains(l, ": update ") || strings.Contains(l, ": delete ") || strings.Contains(l, ": with ") && (strings.Contains(l, " delete from ") || strings.Contains(l, " update ") || strings.Contains(l, " insert into "))
	}
	writes := false
	for _, s := range st {
		if isWrite(s) && !strings.Contains(s, "delete from rkey where etime <= ?") {
			writes = true
		}
	}
	var out []string
	for _, s := range st {
		if strings.Contains(s, "delete from rkey where etime <= ?") {
			// the traced database's own background reclamation ticking while the command ran
			// (runs longer than a minute): no wire command issues this statement
			continue
		}
		if writes && !isWrite(s) {
			continue
		}
		if strings.Contains(s, " in (?") {
			parts := strings.Split(s, " | ")
			sort.Strings(parts[1:])
			s = strings.Join(parts, " | ")
		}
		out = append(out, s)
	}
	sort.Strings(out)
	return out
}

// c13Bytes: see (1b) in runC13.  Only commands the server knows are sent.
func c13Bytes(grams []*hx.CmdGrammar, one func(int, []string) bool) {
	known := map[string]bool{}
	for _, cg := range grams {
		known[cg.Name] = true
	}
	i := 0
	send := func(args ...string) bool {
		if !known[strings.ToLower(args[0])] {
			return true
		}
		i++
		return one(3*i, args) // (every third index: the content comparison runs each time)
	}
	vals := []string{"h\xc3\xa9llo", "\xe2\x82\xac\xf0\x9f\x98\x80", "\xc3\xa9\xc3\xa9\xc3", "007", "+7", "-0", "00", "7", "0", "1e3", " 7", "0x10", "1_000",
		"tag:\xf0\x9f\x98\x80", "tag:\xff", "a\r\nb", "\x00", "x\x00y", ""}
	send("DEL", "bs", "be", "bz", "bh", "bl")
	for _, v := range vals {
		steps := [][]string{
			{"SET", "bs", v}, {"STRLEN", "bs"}, {"GET", "bs"}, {"APPEND", "bs", v}, {"STRLEN", "bs"}, {"GETRANGE", "bs", "0", "-1"},
			{"SADD", "be", v}, {"SISMEMBER", "be", v}, {"SCARD", "be"}, {"SREM", "be", v}, {"SCARD", "be"}, {"SADD", "be", v}, {"SMEMBERS", "be"},
			{"ZADD", "bz", "1", v}, {"ZSCORE", "bz", v}, {"ZRANK", "bz", v}, {"ZCARD", "bz"}, {"ZREM", "bz", v}, {"ZCARD", "bz"}, {"ZADD", "bz", "2", v}, {"ZINCRBY", "bz", "1", v},
			{"HSET", "bh", v, v}, {"HGET", "bh", v}, {"HEXISTS", "bh", v}, {"HLEN", "bh"}, {"HDEL", "bh", v}, {"HLEN", "bh"}, {"HSET", "bh", v, v}, {"HSTRLEN", "bh", v},
			{"RPUSH", "bl", v}, {"LINDEX", "bl", "-1"}, {"LREM", "bl", "0", v}, {"LLEN", "bl"}, {"RPUSH", "bl", v}, {"LINSERT", "bl", "BEFORE", v, v}, {"LLEN", "bl"},
			{"SSCAN", "be", "0", "MATCH", "tag:*", "COUNT", "100"}, {"ZSCAN", "bz", "0", "MATCH", "tag:*", "COUNT", "100"}, {"HSCAN", "bh", "0", "MATCH", "tag:*", "COUNT", "100"},
			{"ZSCAN", "bz", "0", "MATCH", "tag:?", "COUNT", "100"}, {"SSCAN", "be", "0", "MATCH", "tag:?", "COUNT", "100"},
		}
		for _, st := range steps {
			if !send(st...) {
				return
			}
		}
	}
	// more elements than a default page, asked for with no COUNT, a zero, a negative one, and with
	// an explicitly empty pattern
	if !send("DEL", "pg_e", "pg_z", "pg_h") {
		return
	}
	for j := 0; j < 15; j++ {
		n := fmt.Sprintf("m%02d", j)
		for _, st := range [][]string{{"SADD", "pg_e", n}, {"ZADD", "pg_z", strconv.Itoa(j % 4), n}, {"HSET", "pg_h", n, "v"}} {
			if !send(st...) {
				return
			}
		}
	}
	for _, tail := range [][]string{{}, {"COUNT", "0"}, {"COUNT", "-1"}, {"COUNT", "-100"}, {"MATCH", ""}, {"MATCH", "", "COUNT", "100"}, {"COUNT", "100", "MATCH", ""}, {"MATCH", "*", "COUNT", "-1"}} {
		for _, head := range [][]string{{"SSCAN", "pg_e", "0"}, {"ZSCAN", "pg_z", "0"}, {"HSCAN", "pg_h", "0"}, {"SCAN", "0"}} {
			if !send(append(append([]string{}, head...), tail...)...) {
				return
			}
		}
	}
	if !send("DEL", "pg_e", "pg_z", "pg_h") {
		return
	}
	// pattern classes that hold "!", "^" and "[" themselves, over names that consist of them
	for _, name := range []string{"!", "^", "!x", "^x", "[", "k!"} {
		for _, st := range [][]string{{"SET", name, "v"}, {"SADD", "be", name}, {"ZADD", "bz", "1", name}, {"HSET", "bh", name, "v"}} {
			if !send(st...) {
				return
			}
		}
	}
	for _, pat := range []string{"[!k]*", "[[!]", "[[!]*", "[a[!]", "[^!]*", "[!^]", "[!a-c]*", "k[!1]", "[^ab[!^]*", "[]!]"} {
		for _, st := range [][]string{{"SCAN", "0", "MATCH", pat, "COUNT", "1000"}, {"KEYS", pat}, {"SSCAN", "be", "0", "MATCH", pat, "COUNT", "1000"},
			{"ZSCAN", "bz", "0", "MATCH", pat, "COUNT", "1000"}, {"HSCAN", "bh", "0", "MATCH", pat, "COUNT", "1000"}} {
			if !send(st...) {
				return
			}
		}
	}
	if !send("DEL", "!", "^", "!x", "^x", "[", "k!") {
		return
	}
	for _, st := range [][]string{{"SMEMBERS", "be"}, {"ZRANGE", "bz", "0", "-1"}, {"HGETALL", "bh"}, {"LRANGE", "bl", "0", "-1"}, {"DEL", "bs", "be", "bz", "bh", "bl"}} {
		if !send(st...) {
			return
		}
	}
}

// c13LastSecond sets a key to expire at 850 ms into the current second (by PEXPIREAT, PEXPIRE and
// SET PX in turn) and asks TTL, GET and EXISTS while it is live.  When the key was still there
// after the answers (EXISTS 1, and the clock still before the expiry), the documented replies are
// TTL 0 (whole seconds left) and the value; after the expiry: -2, null, 0.
func c13LastSecond(c *hx.Client, hist *[][]string) {
	do := func(args ...string) (hx.RV, bool) {
		*hist = append(*hist, args)
		if err := c.Send(toBytes(args)); err != nil {
			fail("c13-send", err.Error(), *hist)
			return hx.RV{}, false
		}
		got, err := c.Recv(5 * time.Second)
		if err != nil {
			fail("c13-no-reply", "no well-formed reply to "+q(args)+": "+err.Error(), *hist)
			return hx.RV{}, false
		}
		return got, true
	}
	for round := 0; round < 3; round++ {
		for time.Now().UnixMilli()%1000 > 120 {
			time.Sleep(5 * time.Millisecond)
		}
		start := time.Now().UnixMilli()
		at := start/1000*1000 + 850
		key := fmt.Sprintf("klast%d", round)
		var ok bool
		slack := int64(0) // a relative expiry lands at most this much after `at` (the request's round trip)
		switch round {
		case 0:
			_, ok = do("SET", key, "v")
			if ok {
				_, ok = do("PEXPIREAT", key, strconv.FormatInt(at, 10))
			}
		case 1:
			_, ok = do("SET", key, "v")
			if ok {
				t := time.Now().UnixMilli()
				_, ok = do("PEXPIRE", key, strconv.FormatInt(at-t, 10))
				slack = time.Now().UnixMilli() - t
			}
		default:
			t := time.Now().UnixMilli()
			_, ok = do("SET", key, "v", "PX", strconv.FormatInt(at-t, 10))
			slack = time.Now().UnixMilli() - t
		}
		if !ok {
			return
		}
		ttl, ok1 := do("TTL", key)
		ok2 := true // (redka has no PTTL)
		get, ok3 := do("GET", key)
		ex, ok4 := do("EXISTS", key)
		after := time.Now().UnixMilli()
		if !(ok1 && ok2 && ok3 && ok4) {
			return
		}
		if ex.Kind == ':' && ex.Int == 1 && after < at-20 {
			sum.Handled += 3
			// (a relative expiry is added to the server's clock when the request is processed: under
			// load it may land in the next second, so 1 is accepted there; the absolute one is exact)
			if !(ttl.Kind == ':' && (ttl.Int == 0 || round > 0 && ttl.Int == 1)) {
				fail("c13-reply", fmt.Sprintf("TTL of the live key %s, which expires %d ms into the current second, answered %s; the documented reply is the whole seconds left: 0 (EXISTS, asked afterwards, answered 1)", key, at%1000, ttl.Canon()), *hist)
				return
			}
			if !(get.Kind == '$' && !get.Null && string(get.Str) == "v") {
				fail("c13-reply", fmt.Sprintf("GET of the live key %s answered %s", key, get.Canon()), *hist)
				return
			}
		}
		for time.Now().UnixMilli() < at+slack+30 {
			time.Sleep(5 * time.Millisecond)
		}
		ttl, ok1 = do("TTL", key)
		get, ok3 = do("GET", key)
		ex, ok4 = do("EXISTS", key)
		if !(ok1 && ok2 && ok3 && ok4) {
			return
		}
		sum.Handled += 4
		if !(ttl.Kind == ':' && ttl.Int == -2 && get.Kind == '$' && get.Null && ex.Kind == ':' && ex.Int == 0) {
			fail("c13-reply", fmt.Sprintf("after its expiry the key %s is still answered for: TTL %s GET %s EXISTS %s (documented: -2, null, 0)", key, ttl.Canon(), get.Canon(), ex.Canon()), *hist)
			return
		}
	}
}

func c13Blocks(g *hx.WireGen, grams []*hx.CmdGrammar, c *hx.Client, twin *redka.DB, srvPath string, rounds int, hist *[][]string) {
	skip := map[string]bool{"multi": true, "exec": true, "discard": true, "spop": true, "srandmember": true, "randomkey": true,
		"scan": true, "sscan": true, "hscan": true, "zscan": true, "dbsize": true, "flushdb": true, "flushall": true, "keys": true,
		"select": true, "command": true, "config": true, "echo": true, "ping": true, "zrevrangebyscore": true, "zrange": true}
	do := func(args []string) (hx.RV, bool) {
		*hist = append(*hist, args)
		if len(*hist) > 60 {
			*hist = (*hist)[len(*hist)-60:]
		}
		if err := c.Send(toBytes(args)); err != nil {
			fail("c13-send", err.Error(), *hist)
			return hx.RV{}, false
		}
		v, err := c.Recv(5 * time.Second)
		if err != nil {
			fail("c13-no-reply", "no well-formed reply to "+q(args)+": "+err.Error(), *hist)
			return hx.RV{}, false
		}
		return v, true
	}
	// runBlock sends MULTI, the commands, EXEC and checks the outcome; false = stop
	runBlock := func(cmds [][]string) bool {
		before, err := hx.ContentOfFile(srvPath)
		if err != nil {
			fail("harness", err.Error(), *hist)
			return false
		}
		if v, okv := do([]string{"MULTI"}); !okv || v.Kind != '+' {
			if okv {
				fail("c13-reply", "MULTI answered "+v.Verbose(), *hist)
			}
			return false
		}
		var queued [][]string
		for _, args := range cmds {
			v, okv := do(args)
			if !okv {
				return false
			}
			if v.Kind == '+' && string(v.Str) == "QUEUED" {
				queued = append(queued, args)
			} else if v.Kind != '-' {
				fail("c13-reply", fmt.Sprintf("inside MULTI %s answered %s (neither QUEUED nor an error)", q(args), v.Verbose()), *hist)
				return false
			}
		}
		ex, okv := do([]string{"EXEC"})
		if !okv {
			return false
		}
		sum.Blocks++
		if ex.Kind != '*' || len(ex.Arr) != len(queued) {
			fail("c13-reply", fmt.Sprintf("EXEC of %d queued commands answered %s", len(queued), ex.Verbose()), *hist)
			return false
		}
		failedAt := -1
		for i, e := range ex.Arr {
			if e.Kind == '-' {
				failedAt = i
				break
			}
		}
		after, err := hx.ContentOfFile(srvPath)
		if err != nil {
			fail("harness", err.Error(), *hist)
			return false
		}
		if failedAt >= 0 {
			sum.BlocksFailed++
			if same, why := hx.SameContent(before, after); !same {
				fail("c13-state", fmt.Sprintf("a MULTI block whose command %s failed when it ran (%s) changed the database (%s)\n before: %s\n after : %s",
					q(queued[failedAt]), ex.Arr[failedAt].Verbose(), why, before.Text, after.Text), *hist)
				return false
			}
			return true
		}
		for i, args := range queued {
			want, handled := hx.WireOracle(twin, toBytes(args))
			low := strings.ToLower(args[0])
			if !handled {
				hx.ApplyThroughCommandLayer(twin, toBytes(args))
				continue
			}
			gc, wc := ex.Arr[i].Canon(), want.Canon()
			if hx.WireUnordered(low) || hx.WirePaired(low) {
				gc, wc = sortedCanon(ex.Arr[i], hx.WirePaired(low)), sortedCanon(want, hx.WirePaired(low))
			}
			if gc != wc {
				if kf := knownWireFinding(args); kf != "" {
					knownHits[kf]++
					continue
				}
				fail("c13-reply", fmt.Sprintf("inside a MULTI block %s answered %s; the documented API call, Redis-typed, gives %s", q(args), ex.Arr[i].Verbose(), want.Verbose()), *hist)
				return false
			}
		}
		bb, errB := hx.ContentOfDB(twin)
		if errB != nil {
			fail("harness", errB.Error(), *hist)
			return false
		}
		if same, why := hx.SameContent(after, bb); !same {
			fail("c13-state", fmt.Sprintf("after a MULTI block that ran through, the server's database differs from the twin given the same commands one by one (%s)\n server: %s\n twin  : %s", why, after.Text, bb.Text), *hist)
			return false
		}
		return true
	}
	// plain (outside MULTI) request that keeps the twin in step
	plain := func(args []string) bool {
		if _, okv := do(args); !okv {
			return false
		}
		if _, handled := hx.WireOracle(twin, toBytes(args)); !handled {
			hx.ApplyThroughCommandLayer(twin, toBytes(args))
		}
		return true
	}
	// (0) a catalogue of commands that parse and are queued but FAIL WHEN THEY RUN (a value that is
	// not a number, an index out of range, a missing source, a destination of another type): each
	// between two marker writes - the block must be aborted and leave nothing behind
	{
		for _, f := range []string{"string", "hash", "list", "set", "zset"} {
			for _, setup := range sweepSetup[f] {
				if !plain(setup) {
					return
				}
			}
		}
		failing := [][]string{
			{"INCR", "ks2"}, {"INCRBY", "ks2", "5"}, {"DECR", "ks2"}, {"DECRBY", "ks2", "1"}, {"INCRBYFLOAT", "ks2", "1.5"},
			{"HINCRBY", "kh", "f2", "1"}, {"HINCRBYFLOAT", "kh", "f2", "1.5"}, {"HINCRBY", "kh", "f3", "1"}, {"HINCRBYFLOAT", "kh", "f3", "1.5"},
			{"INCR", "kh"}, {"INCRBYFLOAT", "kl", "1"}, {"HSET", "ks", "f", "v"}, {"HINCRBY", "ks", "f", "1"}, {"HINCRBYFLOAT", "ke", "f", "1"},
			{"LPUSH", "ks", "a"}, {"RPUSH", "kh", "a"}, {"SADD", "kl", "a"}, {"ZADD", "ke", "1", "a"}, {"ZINCRBY", "ks", "1", "a"},
			{"LSET", "kl", "99", "v"}, {"LSET", "kl", "-99", "v"}, {"LSET", "kn", "0", "v"}, {"RENAME", "kn", "ks2"}, {"RENAMENX", "kn", "ks2"},
			{"SMOVE", "ke", "ks", "a"}, {"RPOPLPUSH", "kl", "ks"}, {"SUNIONSTORE", "ks", "ke"}, {"SINTERSTORE", "kh", "ke", "ke2"}, {"SDIFFSTORE", "kl", "ke"},
			{"ZUNIONSTORE", "ks", "1", "kz"}, {"ZINTERSTORE", "kh", "2", "kz", "kz2"}, {"SETRANGE", "ks", "0", "x"}, {"APPEND", "ks", "x"},
			{"GETSET", "kh", "v"}, {"SETNX", "kl", "v"}, {"MSETNX", "ks", "v"}, {"SET", "kh", "v", "XX", "GET"}, {"LINSERT", "ks", "BEFORE", "a", "x"},
		}
		for i, f := range failing {
			if len(sum.Failures) > 0 {
				return
			}
			if !runBlock([][]string{{"SET", "marker1", fmt.Sprint("fa", i)}, f, {"SET", "marker2", fmt.Sprint("fb", i)}}) {
				return
			}
			sum.FailingInBlock++
		}
	}
	// (a) every command of the five data types inside a block between two marker writes: on keys
	// of its own type, on keys of another type, and with its first key of its own type and the
	// others of another type (a move whose destination is refused after the source was read)
	saved := g.Keys
	blockNo := 0
	wrongOf := map[string]string{"string": "list", "list": "string", "set": "hash", "hash": "zset", "zset": "set"}
	for _, cg := range grams {
		if len(sum.Failures) > 0 {
			break
		}
		fam := cg.Parser
		if k := strings.Index(fam, "."); k >= 0 {
			fam = fam[:k]
		}
		if _, okf := sweepSetup[fam]; !okf || skip[cg.Name] {
			continue
		}
		own, wrong := sweepKeys[fam][0], sweepKeys[wrongOf[fam]][0]
		// (the fifth sequence goes with numkeys = 2: destination / first key, then two distinct
		// keys of the type whose contents overlap)
		for _, seq := range [][]string{{own, sweepKeys[fam][1]}, {wrong}, {own, wrong}, {own, "kn"}, {sweepKeys[fam][1], own, sweepKeys[fam][1]}} {
			okAll := true
			for _, f := range []string{fam, wrongOf[fam]} {
				for _, setup := range sweepSetup[f] {
					if !plain(setup) {
						okAll = false
					}
				}
			}
			if !okAll {
				g.Keys = saved
				return
			}
			// twice: members / fields drawn from the pool, and one that is nowhere
			for _, force := range []string{"", "zz"} {
				if force != "" {
					for _, f := range []string{fam, wrongOf[fam]} {
						for _, setup := range sweepSetup[f] {
							if !plain(setup) {
								g.Keys = saved
								return
							}
						}
					}
				}
				g.MemberForce = force
				if len(seq) == 3 {
					g.NKeysForce = 2
				}
				g.ResetKeySeq(seq...)
				var args []string
				if cg.Combs != nil {
					args = g.VectorOpts(cg, nil)
				} else {
					args = g.Vector(cg, 0)
				}
				g.ResetKeySeq()
				g.NKeysForce = 0
				g.MemberForce = ""
				blockNo++
				if !runBlock([][]string{{"SET", "marker1", fmt.Sprint("a", blockNo)}, args, {"SET", "marker2", fmt.Sprint("b", blockNo)}}) {
					g.Keys = saved
					return
				}
			}
		}
	}
	g.Keys = saved
	// (b) random blocks
	for round := 0; round < rounds && len(sum.Failures) == 0; round++ {
		var cmds [][]string
		m := 1 + g.R.Intn(4)
		for len(cmds) < m {
			cg := grams[g.R.Intn(len(grams))]
			if skip[cg.Name] {
				continue
			}
			cmds = append(cmds, g.Vector(cg, 0.05))
		}
		if !runBlock(cmds) {
			return
		}
	}
}

// the typed keys of the sweep and the commands that create them (each with a time-to-live)
var sweepSetup = map[string][][]string{
	"string": {{"DEL", "ks", "ks2", "kn"}, {"SET", "ks", "10", "EX", "5000"}, {"SET", "ks2", "abc"}, {"SET", "a\\b", "1"}, {"SET", "ab", "2"}, {"SET", "a*", "3"}},
	"hash":   {{"DEL", "kh", "kh2", "kn"}, {"HSET", "kh", "f1", "1", "f2", "b", "f3", "", "match", "m", "count", "5"}, {"EXPIRE", "kh", "5000"}, {"HSET", "kh2", "f1", "x"}},
	"list":   {{"DEL", "kl", "kl2", "kn"}, {"RPUSH", "kl", "a"}, {"RPUSH", "kl", ""}, {"RPUSH", "kl", "c"}, {"RPUSH", "kl", "a"}, {"RPUSH", "kl", "before"}, {"EXPIRE", "kl", "5000"}, {"RPUSH", "kl2", "z"}, {"RPUSH", "kl2", ""}},
	"set":    {{"DEL", "ke", "ke2", "kn"}, {"SADD", "ke", "a", "b", "c", "match", "count"}, {"EXPIRE", "ke", "5000"}, {"SADD", "ke2", "b", "c", "d"}},
	"zset":   {{"DEL", "kz", "kz2", "kn"}, {"ZADD", "kz", "1", "a", "2", "b", "3", "c", "4", "withscore", "5", "withscores", "6", "limit"}, {"EXPIRE", "kz", "5000"}, {"ZADD", "kz2", "10", "a", "0.5", "b", "7", "d"}},
}

// the keys a swept command draws from: the typed key with a time-to-live and a second key of the
// same type with overlapping content (so that multi-key commands have something to aggregate)
var wrongFam = map[string]string{"string": "list", "list": "string", "set": "hash", "hash": "zset", "zset": "set"}

var sweepKeys = map[string][]string{"string": {"ks", "ks2"}, "hash": {"kh", "kh2"}, "list": {"kl", "kl2"}, "set": {"ke", "ke2"}, "zset": {"kz", "kz2"}}

// handVectors are the swept invocations of a command whose parser is written by hand (no
// combinator tree to derive them from): every key role on the typed keys and on a missing key,
// field / member / value arguments including the empty string, patterns including the empty one.
func handVectors(cg *hx.CmdGrammar, fam string) [][]string {
	k1, k2 := sweepKeys[fam][0], sweepKeys[fam][1]
	n := cg.Name
	var out [][]string
	add := func(a ...string) { out = append(out, append([]string{n}, a...)) }
	switch n {
	case "keys":
		for _, p := range []string{"", "*", "k*", "k?", "[k]*", k1, "k[a-z]2", "*2", "a\\b", "a\\*", "a[\\]b", "a?", "a[*]"} {
			add(p)
		}
	case "rename", "renamenx":
		add(k1, k2)
		add(k1, "kn")
		add("kn", k1)
		add(k1, k1)
	case "mget":
		add(k1, "kn", k2, k1)
	case "hexists", "hget":
		for _, f := range []string{"f1", "f3", "", "nofield", "F1"} {
			add(k1, f)
		}
		add("kn", "f1")
	case "hsetnx":
		add(k1, "f1", "new")
		add(k1, "f9", "")
		add(k1, "", "v")
		add("kn", "f1", "v")
	case "getset", "setnx":
		add(k1, "new")
		add(k2, "")
		add("kn", "v")
	case "incr", "decr", "incrby", "decrby":
		if len(cg.Arity) > 0 && cg.Arity[0] == 2 || n == "incrby" || n == "decrby" {
			add(k1, "5")
			add(k2, "5")
			add("kn", "-3")
		} else {
			add(k1)
			add(k2)
			add("kn")
		}
	case "randomkey", "flushdb", "flushall", "dbsize", "config", "command", "select":
		return nil
	default:
		// one key argument
		add(k1)
		add(k2)
		add("kn")
	}
	return out
}

func c13Sweep(g *hx.WireGen, grams []*hx.CmdGrammar, one func(i int, args []string) bool) {
	saved := g.Keys
	defer func() { g.Keys = saved; g.CursorZero = false; g.ResetKeySeq() }()
	i := 0
	checkedSetup := map[string]bool{}
	run := func(args []string) bool {
		i++
		sum.Sweep++
		return one(i, args)
	}
	for _, cg := range grams {
		fam := cg.Parser
		if k := strings.Index(fam, "."); k >= 0 {
			fam = fam[:k]
		}
		fams := []string{fam}
		if fam == "key" {
			fams = []string{"string", "list", "zset"}
		}
		if _, ok := sweepSetup[fams[0]]; !ok {
			continue
		}
		if cg.Combs == nil {
			// hand-written parsers: a few scripted vectors per command on the typed keys
			for _, f := range fams {
				for _, args := range handVectors(cg, f) {
					for _, setup := range sweepSetup[f] {
						if !run(setup) {
							return
						}
					}
					if !run(args) {
						return
					}
				}
			}
			continue
		}
		switch cg.Name {
		case "flushdb", "flushall", "randomkey":
			continue
		}
		g.CursorZero = true
		opts := cg.Options()
		variants := [][]hx.OptChoice{{}}
		for _, a := range opts {
			variants = append(variants, []hx.OptChoice{a})
		}
		for x := 0; x < len(opts); x++ {
			for y := 0; y < len(opts); y++ {
				if opts[x].Comb != opts[y].Comb && len(variants) < 40 {
					variants = append(variants, []hx.OptChoice{opts[x], opts[y]})
				}
			}
		}
		// index-like arguments: the whole grid of small values instead of random draws
		if ni := cg.SmallIntArgs(); ni >= 1 && ni <= 2 {
			for _, f := range fams {
				for _, a := range hx.SmallInts {
					bs := []string{""}
					if ni == 2 {
						bs = hx.SmallInts
					}
					for _, b := range bs {
						for _, setup := range sweepSetup[f] {
							if !run(setup) {
								return
							}
						}
						g.Keys = sweepKeys[f][:1]
						g.ResetKeySeq()
						if ni == 2 {
							g.SetIntSeq(a, b)
						} else {
							g.SetIntSeq(a)
						}
						vec := g.VectorOpts(cg, nil)
						g.SetIntSeq()
						if !run(vec) {
							return
						}
					}
				}
			}
		}
		for _, f := range fams {
			for _, which := range variants {
				reps := 4
				if len(opts) == 0 {
					reps = 16 // only the positional arguments vary: draw them more often
				}
				for rep := 0; rep < reps; rep++ {
					for _, setup := range sweepSetup[f] {
						if !run(setup) {
							return
						}
					}
					if !checkedSetup[f] {
						// the setup must really have produced keys of the family's type
						checkedSetup[f] = true
						for _, k := range sweepKeys[f] {
							if !run([]string{"TYPE", k}) {
								return
							}
							if lastReply.Canon() != "+"+f {
								fail("harness", fmt.Sprintf("sweep setup: TYPE %s answered %s, expected %s", k, lastReply.Verbose(), f), nil)
								return
							}
						}
					}
					g.ResetKeySeq()
					switch rep {
					case 0:
						g.Keys = sweepKeys[f][:1]
					case reps - 1:
						g.Keys = []string{"kn"}
					case 1:
						// first key of the command's type, the others of another type
						g.Keys = sweepKeys[f]
						for _, setup := range sweepSetup[wrongFam[f]] {
							if !run(setup) {
								return
							}
						}
						g.ResetKeySeq(sweepKeys[f][0], sweepKeys[wrongFam[f]][0])
					case 2:
						// two distinct keys of the type with overlapping content, in both roles: the second
						// as destination / first key, then the first, then the second (numkeys = 2)
						g.Keys = sweepKeys[f]
						g.NKeysForce = 2
						g.ResetKeySeq(sweepKeys[f][1], sweepKeys[f][0], sweepKeys[f][1])
					default:
						g.Keys = sweepKeys[f]
					}
					// once per variant a positional value spells one of the command's own keywords
					g.ForceKeyword = rep == 3 || reps == 4 && rep == 2
					vec := g.VectorOpts(cg, which)
					g.ForceKeyword = false
					g.NKeysForce = 0
					g.ResetKeySeq()
					if !run(vec) {
						return
					}
				}
			}
		}
	}
}

// absoluteExpiry: the request sets an expiry given as a point in time; returns it in milliseconds.
func absoluteExpiry(args []string) (int64, bool) {
	num := func(s string, mul int64) (int64, bool) {
		n, err := strconv.ParseInt(s, 10, 64)
		if err != nil || n > 1<<50 || n < 0 {
			return 0, false
		}
		return n * mul, true
	}
	switch strings.ToLower(args[0]) {
	case "expireat":
		if len(args) == 3 {
			return num(args[2], 1000)
		}
	case "pexpireat":
		if len(args) == 3 {
			return num(args[2], 1)
		}
	case "set":
		for i := 3; i+1 < len(args); i++ {
			switch strings.ToLower(args[i]) {
			case "exat":
				return num(args[i+1], 1000)
			case "pxat":
				return num(args[i+1], 1)
			}
		}
	}
	return 0, false
}

// scanFromStart: the cursor argument of a SCAN / SSCAN / HSCAN / ZSCAN request is 0.
func scanFromStart(args []string) bool {
	i := 1
	if strings.ToLower(args[0]) != "scan" {
		i = 2
	}
	return len(args) > i && args[i] == "0"
}

// pageNotFull: the page holds fewer items than the request's COUNT (default 10) allows.
func pageNotFull(args []string, page hx.RV, paired bool) bool {
	count := 10
	for i := 1; i+1 < len(args); i++ {
		if strings.ToLower(args[i]) == "count" {
			if n, err := strconv.Atoi(args[i+1]); err == nil && n > 0 {
				count = n
			} else if err == nil && n < 0 {
				count = 1 << 30 // a negative count is "no limit" to the documented call: the page is everything
			}
		}
	}
	n := len(page.Arr)
	if paired {
		n /= 2
	}
	return page.Kind == '*' && n < count
}

var knownHits = map[string]int{}

// lastReply is the reply to the request c13 sent last (for the sweep's setup check)
var lastReply hx.RV

// knownWireFinding names the recorded finding a mismatching request falls under, if any:
// ZREVRANGEBYSCORE key max min and ZRANGE key max min BYSCORE REV read their bounds as min max.
func knownWireFinding(args []string) string {
	if n := knownWireFindingName(args); n != "" && listedKnown[n] {
		return n
	}
	return ""
}

// listedKnown: the findings the committed file lists (a deviation whose name is not listed is a violation)
var listedKnown = map[string]bool{}

func knownWireFindingName(args []string) string {
	if len(args) < 4 {
		return ""
	}
	low := strings.ToLower(args[0])
	if args[2] == args[3] {
		return ""
	}
	if low == "zrevrangebyscore" {
		return "kf_zrevrangebyscore_min_max_order"
	}
	if low == "zrange" {
		by, rev := false, false
		for _, a := range args[4:] {
			switch strings.ToLower(a) {
			case "byscore":
				by = true
			case "rev":
				rev = true
			}
		}
		if by && rev {
			return "kf_zrevrangebyscore_min_max_order"
		}
	}
	return ""
}

func sortedCanon(v hx.RV, paired bool) string {
	if v.Kind != '*' || v.Null {
		return v.Canon()
	}
	var items []string
	if paired {
		for i := 0; i+1 < len(v.Arr); i += 2 {
			items = append(items, v.Arr[i].Canon()+"="+v.Arr[i+1].Canon())
		}
	} else {
		for _, a := range v.Arr {
			items = append(items, a.Canon())
		}
	}
	sort.Strings(items)
	return "*{" + strings.Join(items, " ") + "}"
}

func doReplay(path string) int {
	b, err := os.ReadFile(path)
	if err != nil {
		fmt.Fprintln(os.Stderr, err)
		return 2
	}
	var rf struct {
		Mode   string     `json:"mode"`
		Kind   string     `json:"kind"`
		Detail string     `json:"detail"`
		Script [][]string `json:"script"`
	}
	if err := json.Unmarshal(b, &rf); err != nil {
		fmt.Fprintln(os.Stderr, err)
		return 2
	}
	srv, err := hx.StartServer("")
	if err != nil {
		fmt.Fprintln(os.Stderr, err)
		return 2
	}
	defer srv.Stop()
	conns := map[string]*hx.Client{}
	get := func(name string) *hx.Client {
		if c, ok := conns[name]; ok {
			return c
		}
		c, err := hx.Dial(srv.Addr)
		if err != nil {
			return nil
		}
		conns[name] = c
		return c
	}
	fmt.Printf("recorded: %s\n%s\n", rf.Kind, rf.Detail)
	for _, args := range rf.Script {
		who := "A"
		if len(args) > 0 && strings.HasSuffix(args[0], ":") {
			who = strings.TrimSuffix(args[0], ":")
			args = args[1:]
		}
		c := get(who)
		if c == nil {
			fmt.Println("cannot connect: server down")
			return 1
		}
		if err := c.Send(toBytes(args)); err != nil {
			fmt.Printf("%s> %s\n   send error: %v\n", who, q(args), err)
			return 1
		}
		v, err := c.Recv(5 * time.Second)
		if err != nil {
			fmt.Printf("%s> %s\n   NO WELL-FORMED REPLY: %v\n", who, q(args), err)
			return 1
		}
		fmt.Printf("%s> %s\n   %s\n", who, q(args), v.Verbose())
	}
	if !srv.Alive() {
		fmt.Println("the server is down")
		return 1
	}
	return 0
}
