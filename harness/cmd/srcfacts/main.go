// srcfacts: re-extracts the declarative content of /repo's source that the
// hand-written model was built from: every SQL constant, the schema script,
// which DB-level methods are wrapped in a transaction, the command dispatch
// table and each command's parser-combinator tree, and a few constants.
// Output: JSON on stdout.  With -coq FILE it also writes the parser trees as
// Gallina terms (coq/gen/ParseSpecs.v).
package main

import (
	"encoding/json"
	"flag"
	"fmt"
	"go/ast"
	"go/parser"
	"go/token"
	"os"
	"path/filepath"
	"regexp"
	"sort"
	"strconv"
	"strings"
)

type Facts struct {
	SQL      map[string]string `json:"sql"`      // pkg.const -> normalised text (or "= other" for aliases)
	Schema   []string          `json:"schema"`   // normalised statements of schema.sql
	Methods  map[string]string `json:"methods"`  // pkg.DB.Method -> update | rw | ro | other
	Dispatch map[string]string `json:"dispatch"` // command name -> parser call text
	Parsers  map[string]string `json:"parsers"`  // ParseX function -> combinator tree (or "hand-written")
	Consts   map[string]string `json:"consts"`
}

var ws = regexp.MustCompile(`\s+`)

func norm(s string) string { return strings.TrimSpace(ws.ReplaceAllString(s, " ")) }

func exprText(fset *token.FileSet, src []byte, e ast.Node) string {
	return norm(string(src[fset.Position(e.Pos()).Offset:fset.Position(e.End()).Offset]))
}

func main() {
	repo := flag.String("repo", "/repo", "repository root")
	coq := flag.String("coq", "", "write parser trees as Gallina to this file")
	flag.Parse()
	f := Facts{SQL: map[string]string{}, Methods: map[string]string{}, Dispatch: map[string]string{},
		Parsers: map[string]string{}, Consts: map[string]string{}}
	fset := token.NewFileSet()

	// SQL constants and DB-level methods of the six repositories
	for _, pkg := range []string{"rkey", "rstring", "rlist", "rset", "rhash", "rzset", "sqlx"} {
		files, _ := filepath.Glob(filepath.Join(*repo, "internal", pkg, "*.go"))
		for _, path := range files {
			if strings.HasSuffix(path, "_test.go") {
				continue
			}
			src, err := os.ReadFile(path)
			if err != nil {
				fatal(err)
			}
			file, err := parser.ParseFile(fset, path, src, 0)
			if err != nil {
				fatal(err)
			}
			for _, decl := range file.Decls {
				switch d := decl.(type) {
				case *ast.GenDecl:
					if d.Tok != token.CONST && d.Tok != token.VAR {
						continue
					}
					for _, spec := range d.Specs {
						vs := spec.(*ast.ValueSpec)
						for i, name := range vs.Names {
							if i >= len(vs.Values) {
								continue
							}
							switch v := vs.Values[i].(type) {
							case *ast.BasicLit:
								if v.Kind == token.STRING {
									s, _ := strconv.Unquote(v.Value)
									if strings.HasPrefix(name.Name, "sql") {
										f.SQL[pkg+"."+name.Name] = norm(s)
									} else {
										f.Consts[pkg+"."+name.Name] = norm(s)
									}
								} else {
									f.Consts[pkg+"."+name.Name] = v.Value
								}
							case *ast.Ident:
								if strings.HasPrefix(name.Name, "sql") {
									f.SQL[pkg+"."+name.Name] = "= " + v.Name
								}
							case *ast.CompositeLit:
								if name.Name == "DefaultPragma" {
									f.Consts[pkg+"."+name.Name] = exprText(fset, src, v)
								}
							}
						}
					}
				case *ast.FuncDecl:
					if d.Recv == nil || len(d.Recv.List) == 0 || d.Body == nil {
						continue
					}
					recv := exprText(fset, src, d.Recv.List[0].Type)
					body := exprText(fset, src, d.Body)
					if recv == "*DB" && ast.IsExported(d.Name.Name) {
						f.Methods[pkg+".DB."+d.Name.Name] = mode(body)
					}
					// command objects with their own Run / Store (SetCmd, DeleteCmd, InterCmd, UnionCmd, RangeCmd)
					if strings.HasSuffix(recv, "Cmd") && (d.Name.Name == "Run" || d.Name.Name == "Store") {
						f.Methods[pkg+"."+recv+"."+d.Name.Name] = mode(body)
					}
					if pkg == "sqlx" && (d.Name.Name == "execTx" || d.Name.Name == "setNumConns" || d.Name.Name == "DataSource" || d.Name.Name == "applySettings" || d.Name.Name == "createSchema" || d.Name.Name == "init" || d.Name.Name == "Update" || d.Name.Name == "UpdateContext" || d.Name.Name == "View" || d.Name.Name == "ViewContext") {
						f.Consts["sqlx.func."+d.Name.Name] = body
					}
				}
			}
		}
	}
	// schema
	if b, err := os.ReadFile(filepath.Join(*repo, "internal/sqlx/schema.sql")); err == nil {
		var lines []string
		for _, l := range strings.Split(string(b), "\n") {
			if i := strings.Index(l, "--"); i >= 0 {
				l = l[:i]
			}
			lines = append(lines, l)
		}
		text := strings.Join(lines, "\n")
		// statements end with ";" at depth 0 (trigger bodies contain ';' between begin/end)
		var cur strings.Builder
		depth := 0
		for _, tok := range strings.SplitAfter(text, ";") {
			cur.WriteString(tok)
			low := strings.ToLower(tok)
			if regexp.MustCompile(`\bbegin\b`).MatchString(low) {
				depth++
			}
			if depth > 0 && regexp.MustCompile(`\bend\s*;$`).MatchString(strings.TrimSpace(low)) {
				depth--
			}
			if depth == 0 {
				if s := norm(cur.String()); s != "" {
					f.Schema = append(f.Schema, s)
				}
				cur.Reset()
			}
		}
	}
	// redka.go constants (background cleaner)
	if src, err := os.ReadFile(filepath.Join(*repo, "redka.go")); err == nil {
		file, err := parser.ParseFile(fset, "redka.go", src, 0)
		if err == nil {
			ast.Inspect(file, func(n ast.Node) bool {
				if fd, ok := n.(*ast.FuncDecl); ok && (fd.Name.Name == "startBgManager" || fd.Name.Name == "Close" || fd.Name.Name == "new" || fd.Name.Name == "applyOptions" || fd.Name.Name == "Open" || fd.Name.Name == "OpenRead" || fd.Name.Name == "OpenDB" || fd.Name.Name == "OpenReadDB") {
					f.Consts["redka.func."+fd.Name.Name] = exprText(fset, src, fd.Body)
				}
				return true
			})
		}
	}
	// server handlers
	for _, name := range []string{"handlers.go", "state.go"} {
		if src, err := os.ReadFile(filepath.Join(*repo, "internal/server", name)); err == nil {
			file, err := parser.ParseFile(fset, name, src, 0)
			if err == nil {
				for _, decl := range file.Decls {
					if fd, ok := decl.(*ast.FuncDecl); ok && fd.Body != nil {
						f.Consts["server."+fd.Name.Name] = exprText(fset, src, fd.Body)
					}
				}
			}
		}
	}
	// parser combinators themselves
	for _, name := range []string{"parsers.go", "pipeline.go"} {
		if src, err := os.ReadFile(filepath.Join(*repo, "internal/parser", name)); err == nil {
			file, err := parser.ParseFile(fset, name, src, 0)
			if err == nil {
				for _, decl := range file.Decls {
					if fd, ok := decl.(*ast.FuncDecl); ok && fd.Body != nil {
						f.Consts["parser."+fd.Name.Name] = exprText(fset, src, fd.Body)
					}
				}
			}
		}
	}
	// dispatch table
	if src, err := os.ReadFile(filepath.Join(*repo, "internal/command/command.go")); err == nil {
		file, err := parser.ParseFile(fset, "command.go", src, 0)
		if err == nil {
			ast.Inspect(file, func(n ast.Node) bool {
				cc, ok := n.(*ast.CaseClause)
				if !ok || len(cc.Body) != 1 {
					return true
				}
				ret, ok := cc.Body[0].(*ast.ReturnStmt)
				if !ok || len(ret.Results) != 1 {
					return true
				}
				call := exprText(fset, src, ret.Results[0])
				if len(cc.List) == 0 {
					f.Dispatch["<default>"] = call
				}
				for _, e := range cc.List {
					if bl, ok := e.(*ast.BasicLit); ok {
						s, _ := strconv.Unquote(bl.Value)
						f.Dispatch[s] = call
					}
				}
				return true
			})
		}
	}
	// parser trees of the commands
	var coqb strings.Builder
	files, _ := filepath.Glob(filepath.Join(*repo, "internal/command/*/*.go"))
	sort.Strings(files)
	for _, path := range files {
		if strings.HasSuffix(path, "_test.go") {
			continue
		}
		src, err := os.ReadFile(path)
		if err != nil {
			continue
		}
		file, err := parser.ParseFile(fset, path, src, 0)
		if err != nil {
			continue
		}
		pkg := filepath.Base(filepath.Dir(path))
		for _, decl := range file.Decls {
			fd, ok := decl.(*ast.FuncDecl)
			if !ok || fd.Recv != nil || !strings.HasPrefix(fd.Name.Name, "Parse") || fd.Body == nil {
				continue
			}
			key := pkg + "." + fd.Name.Name
			tree := ""
			ast.Inspect(fd.Body, func(n ast.Node) bool {
				call, ok := n.(*ast.CallExpr)
				if !ok || tree != "" {
					return true
				}
				// parser.New(...).Required(n).Run(args)
				if sel, ok := call.Fun.(*ast.SelectorExpr); ok && sel.Sel.Name == "Run" {
					if t, ok := pipelineTree(fset, src, sel.X); ok {
						tree = t
						return false
					}
				}
				return true
			})
			if tree == "" {
				tree = "hand-written: " + exprText(fset, src, fd.Body)
			}
			f.Parsers[key] = tree
		}
	}
	out, _ := json.MarshalIndent(f, "", " ")
	fmt.Println(string(out))
	if *coq != "" {
		writeCoq(*coq, &f, &coqb)
	}
}

func mode(body string) string {
	switch {
	case strings.Contains(body, ".Update(") || strings.Contains(body, ".UpdateContext("):
		if strings.Contains(body, ".RO") {
			return "update+ro"
		}
		return "update"
	case strings.Contains(body, ".RW"):
		return "rw"
	case strings.Contains(body, ".RO"):
		return "ro"
	}
	return "other"
}

// pipelineTree renders parser.New(a, b, ...).Required(n) as "pipeline(n; a, b, ...)".
func pipelineTree(fset *token.FileSet, src []byte, e ast.Expr) (string, bool) {
	req := "0"
	if call, ok := e.(*ast.CallExpr); ok {
		if sel, ok := call.Fun.(*ast.SelectorExpr); ok && sel.Sel.Name == "Required" && len(call.Args) == 1 {
			req = exprText(fset, src, call.Args[0])
			e = sel.X
		}
	}
	call, ok := e.(*ast.CallExpr)
	if !ok {
		return "", false
	}
	sel, ok := call.Fun.(*ast.SelectorExpr)
	if !ok || sel.Sel.Name != "New" {
		return "", false
	}
	if id, ok := sel.X.(*ast.Ident); !ok || id.Name != "parser" {
		return "", false
	}
	parts := make([]string, len(call.Args))
	for i, a := range call.Args {
		parts[i] = combTree(fset, src, a)
	}
	return "pipeline(" + req + "; " + strings.Join(parts, ", ") + ")", true
}

func combTree(fset *token.FileSet, src []byte, e ast.Expr) string {
	call, ok := e.(*ast.CallExpr)
	if !ok {
		return "?" + exprText(fset, src, e)
	}
	sel, ok := call.Fun.(*ast.SelectorExpr)
	if !ok {
		return "?" + exprText(fset, src, e)
	}
	name := sel.Sel.Name
	var args []string
	for _, a := range call.Args {
		switch v := a.(type) {
		case *ast.CallExpr:
			args = append(args, combTree(fset, src, v))
		case *ast.UnaryExpr: // &cmd.field
			args = append(args, "&"+strings.TrimPrefix(exprText(fset, src, v.X), "cmd."))
		case *ast.BasicLit:
			args = append(args, v.Value)
		default:
			args = append(args, exprText(fset, src, a))
		}
	}
	return name + "(" + strings.Join(args, ", ") + ")"
}

func writeCoq(path string, f *Facts, b *strings.Builder) {
	_ = os.MkdirAll(filepath.Dir(path), 0o755)
	b.WriteString("(* GENERATED by harness/cmd/srcfacts from /repo on every run. Do not edit. *)\n")
	b.WriteString("From Redka Require Import Base Parser.\n\n")
	names := make([]string, 0, len(f.Parsers))
	for k := range f.Parsers {
		names = append(names, k)
	}
	sort.Strings(names)
	var entries []string
	for _, k := range names {
		t := f.Parsers[k]
		if strings.HasPrefix(t, "hand-written") {
			continue
		}
		term, ok := coqPipeline(t)
		if !ok {
			fmt.Fprintf(b, "(* %s: not translated: %s *)\n", k, t)
			continue
		}
		id := "spec_" + strings.ReplaceAll(k, ".", "_")
		fmt.Fprintf(b, "Definition %s : pipeline := %s.\n", id, term)
		entries = append(entries, fmt.Sprintf("(\"%s\", %s)", k, id))
	}
	fmt.Fprintf(b, "\nDefinition all_specs : list (string * pipeline) :=\n  [%s].\n", strings.Join(entries, ";\n   "))
	_ = os.WriteFile(path, []byte(b.String()), 0o644)
}

// coqPipeline translates "pipeline(n; a, b)" into a Gallina term.
func coqPipeline(t string) (string, bool) {
	if !strings.HasPrefix(t, "pipeline(") {
		return "", false
	}
	inner := t[len("pipeline(") : len(t)-1]
	semi := strings.Index(inner, ";")
	req := strings.TrimSpace(inner[:semi])
	if _, err := strconv.Atoi(req); err != nil {
		return "", false
	}
	parts := splitTop(inner[semi+1:])
	var terms []string
	for _, p := range parts {
		c, ok := coqComb(strings.TrimSpace(p))
		if !ok {
			return "", false
		}
		terms = append(terms, c)
	}
	return fmt.Sprintf("mkPipeline [%s] %s", strings.Join(terms, "; "), req), true
}

func splitTop(s string) []string {
	var out []string
	depth := 0
	inq := false
	start := 0
	for i, c := range s {
		switch {
		case c == '"':
			inq = !inq
		case inq:
		case c == '(':
			depth++
		case c == ')':
			depth--
		case c == ',' && depth == 0:
			out = append(out, s[start:i])
			start = i + 1
		}
	}
	if strings.TrimSpace(s[start:]) != "" {
		out = append(out, s[start:])
	}
	return out
}

var constVals = map[string]string{
	"sqlx.Sum": `"sum"`, "sqlx.Min": `"min"`, "sqlx.Max": `"max"`,
	"Before": `"before"`, "After": `"after"`,
	"TypeHash": `"hash"`, "TypeList": `"list"`, "TypeSet": `"set"`, "TypeString": `"string"`, "TypeZSet": `"zset"`,
}

func coqComb(t string) (string, bool) {
	open := strings.Index(t, "(")
	if open < 0 {
		return "", false
	}
	name := t[:open]
	args := splitTop(t[open+1 : len(t)-1])
	for i := range args {
		args[i] = strings.TrimSpace(args[i])
	}
	dst := func(a string) string { return "\"" + strings.TrimPrefix(a, "&") + "\"" }
	switch name {
	case "String":
		return "PString " + dst(args[0]), true
	case "Bytes":
		return "PBytes " + dst(args[0]), true
	case "Int":
		return "PInt " + dst(args[0]), true
	case "Float":
		return "PFloat " + dst(args[0]), true
	case "Strings":
		return "PStrings " + dst(args[0]), true
	case "Anys":
		return "PAnys " + dst(args[0]), true
	case "AnyMap":
		return "PAnyMap " + dst(args[0]), true
	case "FloatMap":
		return "PFloatMap " + dst(args[0]), true
	case "StringsN":
		return "PStringsN " + dst(args[0]) + " " + dst(args[1]), true
	case "Enum":
		var vals []string
		for _, a := range args[1:] {
			if v, ok := constVals[a]; ok {
				vals = append(vals, v)
			} else if strings.HasPrefix(a, "\"") {
				vals = append(vals, a)
			} else {
				return "", false
			}
		}
		return "PEnum " + dst(args[0]) + " [" + strings.Join(vals, "; ") + "]", true
	case "Flag":
		return "PFlag " + args[0] + " " + dst(args[1]), true
	case "Named", "OneOf":
		var subs []string
		first := 0
		head := "POneOf"
		if name == "Named" {
			first = 1
			head = "PNamed " + args[0]
		}
		for _, a := range args[first:] {
			c, ok := coqComb(a)
			if !ok {
				return "", false
			}
			subs = append(subs, c)
		}
		return head + " [" + strings.Join(subs, "; ") + "]", true
	}
	return "", false
}

func fatal(err error) {
	fmt.Fprintln(os.Stderr, err)
	os.Exit(2)
}
