// wprogs: translates what every command's Run method does with its
// redis.Writer into the small IR of coq/Writer.v and writes the table
// coq/gen/WriterProgs.v (one entry per command type).  The Coq checker
// (Writer.check, proved sound in ProofWriter.v) then shows that every
// command writes exactly one complete RESP value, for all data.
//
// Only go/ast is used (no type checking).  The abstraction:
//   - w.WriteInt/Int64/Uint64/Bulk/BulkString/String/Error/Null/Any(...)  -> WVal
//   - w.WriteArray(e)                                                      -> WArr <lenx of e>
//   - if / else / switch / type switch / select                           -> (nested) WIf
//   - for range x, for i := 0; i < len(x); i++                             -> WFor "x" body
//     any other loop                                                        -> WFor "?loopN" body
//     (a fresh name: the checker quantifies over all lengths)
//   - return                                                                -> WRet
//   - a call that passes the writer to a function or method of this module
//     whose declaration can be found syntactically is INLINED at the call site
//   - every other statement that mentions the writer, WriteRaw, panic,
//     break/continue/goto/fallthrough in code that writes                  -> WUnknown
//   - statements that do not mention the writer are dropped.
//
// A collection name (LLen "x" / WFor "x") is used only when the Go variable
// path is "stable" in the function (see stable()): otherwise the header
// becomes LUnknown and the loop gets a fresh name, and the checker rejects.
//
// Usage: wprogs -repo /repo -out coq/gen/WriterProgs.v
package main

import (
	"flag"
	"fmt"
	"go/ast"
	"go/parser"
	"go/token"
	"os"
	"path/filepath"
	"sort"
	"strconv"
	"strings"
)

// ---------------------------------------------------------------- IR

type kind int

const (
	kVal kind = iota
	kArr
	kIf
	kFor
	kRet
	kUnknown
	kCall // intermediate: an inlined call; removed by lower()
)

type node struct {
	k    kind
	len  *lenx   // kArr
	a, b []*node // kIf: branches; kFor, kCall: a = body
	x    string  // kFor: collection name
	why  string  // kUnknown: reason (reported)
}

type lenx struct {
	op   string // "const", "len", "mul", "add", "unknown"
	n    int
	x    string
	a, b *lenx
	why  string
}

func (e *lenx) coq() string {
	switch e.op {
	case "const":
		return fmt.Sprintf("LConst %d", e.n)
	case "len":
		return fmt.Sprintf("LLen %s", strconv.Quote(e.x))
	case "mul":
		return fmt.Sprintf("LMul %d (%s)", e.n, e.a.coq())
	case "add":
		return fmt.Sprintf("LAdd (%s) (%s)", e.a.coq(), e.b.coq())
	}
	return "LUnknown"
}

func coqList(l []*node) string {
	parts := make([]string, len(l))
	for i, n := range l {
		parts[i] = n.coq()
	}
	return "[" + strings.Join(parts, "; ") + "]"
}

func (n *node) coq() string {
	switch n.k {
	case kVal:
		return "WVal"
	case kArr:
		return "WArr (" + n.len.coq() + ")"
	case kIf:
		return "WIf " + coqList(n.a) + " " + coqList(n.b)
	case kFor:
		return "WFor " + strconv.Quote(n.x) + " " + coqList(n.a)
	case kRet:
		return "WRet"
	}
	return "WUnknown"
}

func hasRet(l []*node) bool {
	for _, n := range l {
		switch n.k {
		case kRet:
			return true
		case kIf:
			if hasRet(n.a) || hasRet(n.b) {
				return true
			}
		case kFor, kCall:
			if hasRet(n.a) {
				return true
			}
		}
	}
	return false
}

// seqInline: c is the (lowered) body of an inlined callee, rest is what the
// caller does afterwards.  A return inside c ends the callee only: the caller's
// rest follows every return and the fall-through end of c.
func seqInline(c, rest []*node) []*node { return inl(c, rest, rest) }

// inl: fall = what follows when c falls off its end, ret = what follows a return
func inl(c, fall, ret []*node) []*node {
	if !hasRet(c) {
		return append(append([]*node{}, c...), fall...)
	}
	for i, s := range c {
		switch s.k {
		case kRet:
			return append(append([]*node{}, c[:i]...), ret...)
		case kIf:
			if hasRet(s.a) || hasRet(s.b) {
				tail := inl(c[i+1:], fall, ret)
				n := &node{k: kIf, a: inl(s.a, tail, ret), b: inl(s.b, tail, ret)}
				return append(append([]*node{}, c[:i]...), n)
			}
		case kFor:
			if hasRet(s.a) {
				u := &node{k: kUnknown, why: "return inside a loop of an inlined helper"}
				return append(append([]*node{}, c[:i]...), u)
			}
		}
	}
	return append(append([]*node{}, c...), fall...)
}

// lower removes kCall nodes.
func lower(l []*node) []*node {
	var out []*node
	for i := len(l) - 1; i >= 0; i-- {
		s := l[i]
		switch s.k {
		case kIf:
			out = append([]*node{{k: kIf, a: lower(s.a), b: lower(s.b)}}, out...)
		case kFor:
			out = append([]*node{{k: kFor, x: s.x, a: lower(s.a)}}, out...)
		case kCall:
			out = seqInline(lower(s.a), out)
		default:
			out = append([]*node{s}, out...)
		}
	}
	return out
}

// simplify drops branches and loops in which nothing happens.
func simplify(l []*node) []*node {
	var out []*node
	for _, s := range l {
		switch s.k {
		case kIf:
			a, b := simplify(s.a), simplify(s.b)
			if len(a) == 0 && len(b) == 0 {
				continue
			}
			out = append(out, &node{k: kIf, a: a, b: b})
		case kFor:
			a := simplify(s.a)
			if len(a) == 0 {
				continue
			}
			out = append(out, &node{k: kFor, x: s.x, a: a})
		default:
			out = append(out, s)
		}
	}
	return out
}

func collectUnknown(l []*node, acc *[]string) {
	for _, s := range l {
		switch s.k {
		case kUnknown:
			*acc = append(*acc, "WUnknown: "+s.why)
		case kArr:
			collectLenUnknown(s.len, acc)
		case kIf:
			collectUnknown(s.a, acc)
			collectUnknown(s.b, acc)
		case kFor:
			if strings.HasPrefix(s.x, "?") {
				*acc = append(*acc, "loop with unknown count "+s.x)
			}
			collectUnknown(s.a, acc)
		}
	}
}

func collectLenUnknown(e *lenx, acc *[]string) {
	switch e.op {
	case "unknown":
		*acc = append(*acc, "LUnknown: "+e.why)
	case "mul":
		collectLenUnknown(e.a, acc)
	case "add":
		collectLenUnknown(e.a, acc)
		collectLenUnknown(e.b, acc)
	}
}

// ---------------------------------------------------------------- source index

type pkgInfo struct {
	path    string // import path
	name    string
	funcs   map[string]*funcInfo            // "F" or "T.M"
	structs map[string]*ast.StructType      // type name -> struct
	ptrRecv map[string]bool                 // method names that have a pointer receiver somewhere
	methods map[string]bool                 // all method names
	files   map[*ast.File]map[string]string // file -> import alias -> import path
}

type funcInfo struct {
	pkg  *pkgInfo
	file *ast.File
	decl *ast.FuncDecl
}

type index struct {
	repo   string
	module string
	fset   *token.FileSet
	pkgs   map[string]*pkgInfo // by import path (nil = not loadable)
}

func (ix *index) load(importPath string) *pkgInfo {
	if p, ok := ix.pkgs[importPath]; ok {
		return p
	}
	ix.pkgs[importPath] = nil
	if importPath != ix.module && !strings.HasPrefix(importPath, ix.module+"/") {
		return nil
	}
	dir := filepath.Join(ix.repo, strings.TrimPrefix(strings.TrimPrefix(importPath, ix.module), "/"))
	files, _ := filepath.Glob(filepath.Join(dir, "*.go"))
	sort.Strings(files)
	p := &pkgInfo{path: importPath, funcs: map[string]*funcInfo{}, structs: map[string]*ast.StructType{},
		ptrRecv: map[string]bool{}, methods: map[string]bool{}, files: map[*ast.File]map[string]string{}}
	for _, path := range files {
		if strings.HasSuffix(path, "_test.go") {
			continue
		}
		f, err := parser.ParseFile(ix.fset, path, nil, 0)
		if err != nil {
			fatal(err)
		}
		p.name = f.Name.Name
		imps := map[string]string{}
		for _, im := range f.Imports {
			ip, _ := strconv.Unquote(im.Path.Value)
			alias := ip[strings.LastIndex(ip, "/")+1:]
			if im.Name != nil {
				alias = im.Name.Name
			}
			imps[alias] = ip
		}
		p.files[f] = imps
		for _, d := range f.Decls {
			switch d := d.(type) {
			case *ast.FuncDecl:
				if d.Recv == nil {
					p.funcs[d.Name.Name] = &funcInfo{pkg: p, file: f, decl: d}
					continue
				}
				tn, ptr := recvType(d.Recv.List[0].Type)
				p.funcs[tn+"."+d.Name.Name] = &funcInfo{pkg: p, file: f, decl: d}
				p.methods[d.Name.Name] = true
				if ptr {
					p.ptrRecv[d.Name.Name] = true
				}
			case *ast.GenDecl:
				for _, s := range d.Specs {
					if ts, ok := s.(*ast.TypeSpec); ok {
						if st, ok := ts.Type.(*ast.StructType); ok {
							p.structs[ts.Name.Name] = st
						}
					}
				}
			}
		}
	}
	if len(p.files) == 0 {
		return nil
	}
	ix.pkgs[importPath] = p
	return p
}

func recvType(e ast.Expr) (string, bool) {
	ptr := false
	for {
		switch t := e.(type) {
		case *ast.StarExpr:
			ptr = true
			e = t.X
		case *ast.ParenExpr:
			e = t.X
		case *ast.IndexExpr: // generic receiver
			e = t.X
		case *ast.IndexListExpr:
			e = t.X
		case *ast.Ident:
			return t.Name, ptr
		default:
			return "?", ptr
		}
	}
}

// a named type as far as syntax tells: package + type name
type tyRef struct {
	pkg  *pkgInfo
	name string
}

func (ix *index) typeOfExpr(p *pkgInfo, f *ast.File, e ast.Expr) *tyRef {
	switch t := e.(type) {
	case *ast.StarExpr:
		return ix.typeOfExpr(p, f, t.X)
	case *ast.ParenExpr:
		return ix.typeOfExpr(p, f, t.X)
	case *ast.Ident:
		return &tyRef{p, t.Name}
	case *ast.SelectorExpr:
		if id, ok := t.X.(*ast.Ident); ok {
			if ip, ok := p.files[f][id.Name]; ok {
				if q := ix.load(ip); q != nil {
					return &tyRef{q, t.Sel.Name}
				}
			}
		}
	}
	return nil
}

// the file in which a struct type of package p is declared (for its imports)
func (p *pkgInfo) fileOfStruct(name string) *ast.File {
	st := p.structs[name]
	for f := range p.files {
		if f.Pos() <= st.Pos() && st.End() <= f.End() {
			return f
		}
	}
	return nil
}

// field type of a struct type
func (ix *index) fieldType(t *tyRef, field string) *tyRef {
	st := t.pkg.structs[t.name]
	if st == nil {
		return nil
	}
	f := t.pkg.fileOfStruct(t.name)
	for _, fl := range st.Fields.List {
		if len(fl.Names) == 0 { // embedded
			et := ix.typeOfExpr(t.pkg, f, fl.Type)
			if et != nil && et.name == field {
				return et
			}
			continue
		}
		for _, n := range fl.Names {
			if n.Name == field {
				return ix.typeOfExpr(t.pkg, f, fl.Type)
			}
		}
	}
	// promoted fields of embedded structs
	for _, fl := range st.Fields.List {
		if len(fl.Names) == 0 {
			if et := ix.typeOfExpr(t.pkg, f, fl.Type); et != nil {
				if r := ix.fieldType(et, field); r != nil {
					return r
				}
			}
		}
	}
	return nil
}

// method lookup, through embedded fields
func (ix *index) method(t *tyRef, name string, depth int) *funcInfo {
	if t == nil || depth > 4 {
		return nil
	}
	if fi := t.pkg.funcs[t.name+"."+name]; fi != nil {
		return fi
	}
	st := t.pkg.structs[t.name]
	if st == nil {
		return nil
	}
	f := t.pkg.fileOfStruct(t.name)
	for _, fl := range st.Fields.List {
		if len(fl.Names) == 0 {
			if fi := ix.method(ix.typeOfExpr(t.pkg, f, fl.Type), name, depth+1); fi != nil {
				return fi
			}
		}
	}
	return nil
}

// ---------------------------------------------------------------- translation

type ctx struct {
	ix      *index
	fn      *funcInfo
	writers map[string]bool   // identifiers that denote the writer here
	names   map[string]string // Go root identifier -> canonical root text
	prefix  string            // canonical prefix for the other identifiers ("" at top level)
	types   map[string]*tyRef // receiver / parameters with a syntactically known named type
	stack   []string          // functions being inlined
	fresh   *int              // counter for fresh names
	facts   *fnFacts          // assignments etc. of this Go function
}

func (c *ctx) unknown(why string, pos token.Pos) *node {
	p := c.ix.fset.Position(pos)
	rel, _ := filepath.Rel(c.ix.repo, p.Filename)
	return &node{k: kUnknown, why: fmt.Sprintf("%s (%s:%d)", why, rel, p.Line)}
}

func (c *ctx) freshName(tag string) string {
	*c.fresh++
	return fmt.Sprintf("?%s%d", tag, *c.fresh)
}

// does the syntax tree mention the writer?
func (c *ctx) mentionsW(n ast.Node) bool {
	if n == nil {
		return false
	}
	found := false
	ast.Inspect(n, func(m ast.Node) bool {
		if id, ok := m.(*ast.Ident); ok && c.writers[id.Name] {
			found = true
		}
		return !found
	})
	return found
}

func (c *ctx) isW(e ast.Expr) bool {
	for {
		p, ok := e.(*ast.ParenExpr)
		if !ok {
			break
		}
		e = p.X
	}
	id, ok := e.(*ast.Ident)
	return ok && c.writers[id.Name]
}

var oneValue = map[string]bool{"WriteInt": true, "WriteInt64": true, "WriteUint64": true, "WriteBulk": true,
	"WriteBulkString": true, "WriteString": true, "WriteError": true, "WriteNull": true, "WriteAny": true}

var exits = map[string]bool{"panic": true, "os.Exit": true, "log.Fatal": true, "log.Fatalf": true,
	"log.Fatalln": true, "log.Panic": true, "log.Panicf": true, "log.Panicln": true, "runtime.Goexit": true}

func calleeText(e ast.Expr) string {
	switch t := e.(type) {
	case *ast.Ident:
		return t.Name
	case *ast.SelectorExpr:
		return calleeText(t.X) + "." + t.Sel.Name
	case *ast.ParenExpr:
		return calleeText(t.X)
	}
	return "?"
}

// path text of an identifier / selector chain ("res.Items"), "" if e is something else
func pathOf(e ast.Expr) (root string, path string) {
	switch t := e.(type) {
	case *ast.Ident:
		return t.Name, t.Name
	case *ast.SelectorExpr:
		r, p := pathOf(t.X)
		if p == "" {
			return "", ""
		}
		return r, p + "." + t.Sel.Name
	case *ast.ParenExpr:
		return pathOf(t.X)
	}
	return "", ""
}

// canonical name of a Go path in this context
func (c *ctx) canon(root, path string) string {
	rest := strings.TrimPrefix(path, root)
	if m, ok := c.names[root]; ok {
		return m + rest
	}
	return c.prefix + path
}

// collection name for `x` in len(x) / range x: its canonical path when x is
// a stable path, "" otherwise (with the reason)
func (c *ctx) collName(e ast.Expr) (string, string) {
	root, path := pathOf(e)
	if path == "" {
		return "", "not a variable or field path"
	}
	if why := c.facts.unstable(root, path); why != "" {
		return "", why
	}
	return c.canon(root, path), ""
}

func (c *ctx) lenOf(e ast.Expr, depth int) *lenx {
	txt := c.text(e)
	unk := func(why string) *lenx { return &lenx{op: "unknown", why: why + ": " + txt} }
	if depth > 8 {
		return unk("too deep")
	}
	switch t := e.(type) {
	case *ast.ParenExpr:
		return c.lenOf(t.X, depth+1)
	case *ast.BasicLit:
		if t.Kind == token.INT {
			if n, err := strconv.ParseInt(t.Value, 0, 32); err == nil && n >= 0 {
				return &lenx{op: "const", n: int(n)}
			}
		}
	case *ast.CallExpr:
		if id, ok := t.Fun.(*ast.Ident); ok && len(t.Args) == 1 {
			if id.Name == "len" && !c.facts.declared[id.Name] {
				name, why := c.collName(t.Args[0])
				if name == "" {
					return unk(why)
				}
				return &lenx{op: "len", x: name}
			}
			if id.Name == "int" && !c.facts.declared[id.Name] {
				return c.lenOf(t.Args[0], depth+1)
			}
		}
	case *ast.BinaryExpr:
		switch t.Op {
		case token.ADD:
			return &lenx{op: "add", a: c.lenOf(t.X, depth+1), b: c.lenOf(t.Y, depth+1)}
		case token.MUL:
			a, b := c.lenOf(t.X, depth+1), c.lenOf(t.Y, depth+1)
			if a.op == "const" {
				return &lenx{op: "mul", n: a.n, a: b}
			}
			if b.op == "const" {
				return &lenx{op: "mul", n: b.n, a: a}
			}
			return unk("product of two non-constants")
		}
	case *ast.Ident:
		// a local variable assigned exactly once, outside loops: use its definition
		if def := c.facts.singleDef(t.Name); def != nil {
			return c.lenOf(def, depth+1)
		}
		return unk("not a single-assignment local")
	}
	return unk("unsupported length expression")
}

func (c *ctx) text(n ast.Node) string {
	p, q := c.ix.fset.Position(n.Pos()), c.ix.fset.Position(n.End())
	src, err := os.ReadFile(p.Filename)
	if err != nil || q.Offset > len(src) {
		return "?"
	}
	return strings.Join(strings.Fields(string(src[p.Offset:q.Offset])), " ")
}

func (c *ctx) block(l []ast.Stmt) []*node {
	var out []*node
	for _, s := range l {
		out = append(out, c.stmt(s)...)
	}
	return out
}

// branch statements that leave a loop / switch body irregularly
func irregular(body ast.Node, inLoop bool) (brk, cont, other bool) {
	var walk func(n ast.Node, loopDepth, switchDepth int)
	walk = func(n ast.Node, loopDepth, switchDepth int) {
		ast.Inspect(n, func(m ast.Node) bool {
			if m == nil || m == n {
				return true
			}
			switch t := m.(type) {
			case *ast.FuncLit:
				return false
			case *ast.ForStmt:
				walk(t.Body, loopDepth+1, switchDepth)
				return false
			case *ast.RangeStmt:
				walk(t.Body, loopDepth+1, switchDepth)
				return false
			case *ast.SwitchStmt:
				walk(t.Body, loopDepth, switchDepth+1)
				return false
			case *ast.TypeSwitchStmt:
				walk(t.Body, loopDepth, switchDepth+1)
				return false
			case *ast.SelectStmt:
				walk(t.Body, loopDepth, switchDepth+1)
				return false
			case *ast.BranchStmt:
				switch {
				case t.Tok == token.GOTO || t.Label != nil:
					other = true
				case t.Tok == token.FALLTHROUGH:
					if switchDepth == 0 {
						other = true
					}
				case t.Tok == token.BREAK:
					if loopDepth == 0 && switchDepth == 0 {
						brk = true
					}
				case t.Tok == token.CONTINUE:
					if inLoop && loopDepth == 0 {
						cont = true
					}
				}
			}
			return true
		})
	}
	walk(body, 0, 0)
	return
}

func (c *ctx) stmt(s ast.Stmt) []*node {
	switch t := s.(type) {
	case nil:
		return nil
	case *ast.BlockStmt:
		return c.block(t.List)
	case *ast.LabeledStmt:
		return c.stmt(t.Stmt)
	case *ast.EmptyStmt:
		return nil
	case *ast.ExprStmt:
		if call, ok := t.X.(*ast.CallExpr); ok {
			return c.call(call)
		}
		if c.mentionsW(t) {
			return []*node{c.unknown("expression mentions the writer", t.Pos())}
		}
		return nil
	case *ast.AssignStmt:
		for _, l := range t.Lhs {
			if id, ok := l.(*ast.Ident); ok && c.writers[id.Name] {
				return []*node{c.unknown("the writer variable is assigned", t.Pos())}
			}
		}
		if len(t.Rhs) == 1 {
			if call, ok := t.Rhs[0].(*ast.CallExpr); ok && c.passesW(call) {
				lhsW := false
				for _, l := range t.Lhs {
					lhsW = lhsW || c.mentionsW(l)
				}
				if !lhsW {
					return c.call(call)
				}
			}
		}
		if c.mentionsW(t) {
			return []*node{c.unknown("assignment mentions the writer", t.Pos())}
		}
		return nil
	case *ast.ReturnStmt:
		var out []*node
		for _, r := range t.Results {
			if call, ok := r.(*ast.CallExpr); ok && c.passesW(call) {
				out = append(out, c.call(call)...)
			} else if c.mentionsW(r) {
				out = append(out, c.unknown("return value mentions the writer", r.Pos()))
			}
		}
		return append(out, &node{k: kRet})
	case *ast.IfStmt:
		out := c.stmt(t.Init)
		if c.mentionsW(t.Cond) {
			out = append(out, c.unknown("condition mentions the writer", t.Cond.Pos()))
		}
		return append(out, &node{k: kIf, a: c.block(t.Body.List), b: c.stmt(t.Else)})
	case *ast.SwitchStmt:
		out := c.stmt(t.Init)
		if c.mentionsW(t.Tag) {
			out = append(out, c.unknown("switch tag mentions the writer", t.Tag.Pos()))
		}
		return append(out, c.clauses(t.Body, t.Pos())...)
	case *ast.TypeSwitchStmt:
		out := c.stmt(t.Init)
		if c.mentionsW(t.Assign) {
			out = append(out, c.unknown("type switch mentions the writer", t.Assign.Pos()))
		}
		return append(out, c.clauses(t.Body, t.Pos())...)
	case *ast.SelectStmt:
		return c.clauses(t.Body, t.Pos())
	case *ast.ForStmt:
		out := c.stmt(t.Init)
		if c.mentionsW(t.Cond) || c.mentionsW(t.Post) {
			return append(out, c.unknown("loop header mentions the writer", t.Pos()))
		}
		name := c.indexLoopName(t)
		return append(out, c.loop(name, t.Body, t.Pos())...)
	case *ast.RangeStmt:
		if c.mentionsW(t.X) || c.mentionsW(t.Key) || c.mentionsW(t.Value) {
			return []*node{c.unknown("range header mentions the writer", t.Pos())}
		}
		name, _ := c.collName(t.X)
		if name == "" {
			// `for range n` over an integer that is a known length
			if l := c.lenOf(t.X, 0); l.op == "len" {
				name = l.x
			}
		}
		if name == "" {
			name = c.freshName("loop")
		}
		return c.loop(name, t.Body, t.Pos())
	case *ast.BranchStmt:
		// break / continue / goto / fallthrough are accounted for by the
		// enclosing loop or switch (irregular()); nothing is written here
		return nil
	case *ast.DeferStmt, *ast.GoStmt:
		if c.mentionsW(t) {
			return []*node{c.unknown("defer/go mentions the writer", t.Pos())}
		}
		return nil
	default: // DeclStmt, IncDecStmt, SendStmt, ...
		if c.mentionsW(t) {
			return []*node{c.unknown("statement mentions the writer", t.Pos())}
		}
		return nil
	}
}

// for i := 0; i < len(x); i++  (i not assigned in the body)  ->  x
func (c *ctx) indexLoopName(t *ast.ForStmt) string {
	fresh := func() string { return c.freshName("loop") }
	init, ok := t.Init.(*ast.AssignStmt)
	if !ok || init.Tok != token.DEFINE || len(init.Lhs) != 1 || len(init.Rhs) != 1 {
		return fresh()
	}
	iv, ok := init.Lhs[0].(*ast.Ident)
	zero, ok2 := init.Rhs[0].(*ast.BasicLit)
	if !ok || !ok2 || zero.Value != "0" {
		return fresh()
	}
	cond, ok := t.Cond.(*ast.BinaryExpr)
	if !ok || cond.Op != token.LSS {
		return fresh()
	}
	if id, ok := cond.X.(*ast.Ident); !ok || id.Name != iv.Name {
		return fresh()
	}
	post, ok := t.Post.(*ast.IncDecStmt)
	if !ok || post.Tok != token.INC {
		return fresh()
	}
	if id, ok := post.X.(*ast.Ident); !ok || id.Name != iv.Name {
		return fresh()
	}
	// the index variable must not be written in the body
	bad := false
	ast.Inspect(t.Body, func(m ast.Node) bool {
		switch a := m.(type) {
		case *ast.AssignStmt:
			for _, l := range a.Lhs {
				if id, ok := l.(*ast.Ident); ok && id.Name == iv.Name {
					bad = true
				}
			}
		case *ast.IncDecStmt:
			if id, ok := a.X.(*ast.Ident); ok && id.Name == iv.Name {
				bad = true
			}
		case *ast.UnaryExpr:
			if id, ok := a.X.(*ast.Ident); ok && a.Op == token.AND && id.Name == iv.Name {
				bad = true
			}
		}
		return !bad
	})
	if bad {
		return fresh()
	}
	if l := c.lenOf(cond.Y, 0); l.op == "len" {
		return l.x
	}
	return fresh()
}

func (c *ctx) loop(name string, body *ast.BlockStmt, pos token.Pos) []*node {
	b := c.block(body.List)
	brk, cont, other := irregular(body, true)
	if brk || cont || other {
		if len(simplify(lower(b))) == 0 {
			return nil
		}
		return []*node{c.unknown("break/continue/goto in a loop that writes or returns", pos)}
	}
	return []*node{{k: kFor, x: name, a: b}}
}

// switch / type switch / select body -> nested WIf, default last
func (c *ctx) clauses(body *ast.BlockStmt, pos token.Pos) []*node {
	var bodies [][]*node
	var deflt []*node
	hasDefault := false
	isSelect := false
	var pre []*node
	for _, cl := range body.List {
		switch cc := cl.(type) {
		case *ast.CaseClause:
			for _, e := range cc.List {
				if c.mentionsW(e) {
					pre = append(pre, c.unknown("case expression mentions the writer", e.Pos()))
				}
			}
			b := c.block(cc.Body)
			if cc.List == nil {
				hasDefault, deflt = true, b
			} else {
				bodies = append(bodies, b)
			}
		case *ast.CommClause:
			isSelect = true
			b := append(c.stmt(cc.Comm), c.block(cc.Body)...)
			if cc.Comm == nil {
				hasDefault, deflt = true, b
			} else {
				bodies = append(bodies, b)
			}
		}
	}
	brk, _, other := irregular(body, false)
	// fallthrough inside the clauses
	ft := false
	ast.Inspect(body, func(m ast.Node) bool {
		if b, ok := m.(*ast.BranchStmt); ok && b.Tok == token.FALLTHROUGH {
			ft = true
		}
		return !ft
	})
	all := append(append([][]*node{}, bodies...), deflt)
	any := false
	for _, b := range all {
		if len(simplify(lower(b))) > 0 {
			any = true
		}
	}
	if len(pre) > 0 {
		return pre
	}
	if !any {
		return nil
	}
	if brk || other || ft {
		return []*node{c.unknown("break/goto/fallthrough in a switch that writes or returns", pos)}
	}
	// a select without default executes exactly one of its clauses
	var tail []*node
	if hasDefault {
		tail = deflt
	} else if isSelect && len(bodies) > 0 {
		tail = bodies[len(bodies)-1]
		bodies = bodies[:len(bodies)-1]
	}
	for i := len(bodies) - 1; i >= 0; i-- {
		tail = []*node{{k: kIf, a: bodies[i], b: tail}}
	}
	return tail
}

// does the call pass the writer itself as an argument (or use it as the receiver of a non-Write call)?
func (c *ctx) passesW(call *ast.CallExpr) bool {
	for _, a := range call.Args {
		if c.isW(a) {
			return true
		}
	}
	if sel, ok := call.Fun.(*ast.SelectorExpr); ok && c.isW(sel.X) {
		return true
	}
	return false
}

func (c *ctx) call(call *ast.CallExpr) []*node {
	name := calleeText(call.Fun)
	// w.WriteX(...)
	if sel, ok := call.Fun.(*ast.SelectorExpr); ok && c.isW(sel.X) {
		for _, a := range call.Args {
			if c.mentionsW(a) {
				return []*node{c.unknown("argument of a write mentions the writer", call.Pos())}
			}
		}
		switch {
		case oneValue[sel.Sel.Name]:
			return []*node{{k: kVal}}
		case sel.Sel.Name == "WriteArray" && len(call.Args) == 1:
			return []*node{{k: kArr, len: c.lenOf(call.Args[0], 0)}}
		}
		return []*node{c.unknown("writer method "+sel.Sel.Name, call.Pos())}
	}
	if exits[name] && !c.facts.declared[strings.SplitN(name, ".", 2)[0]] {
		return []*node{c.unknown("call of "+name, call.Pos())}
	}
	if !c.mentionsW(call) {
		return nil
	}
	// the writer is passed on: inline the callee when it can be found
	direct := false
	for _, a := range call.Args {
		if c.isW(a) {
			direct = true
		} else if c.mentionsW(a) {
			return []*node{c.unknown("argument mentions the writer", call.Pos())}
		}
	}
	if !direct || c.mentionsW(call.Fun) {
		return []*node{c.unknown("call mentions the writer", call.Pos())}
	}
	callee, recvExpr := c.resolve(call.Fun)
	if callee == nil || callee.decl.Body == nil {
		return []*node{c.unknown("the writer is passed to "+name+", which cannot be inlined", call.Pos())}
	}
	key := callee.pkg.path + "." + declName(callee.decl)
	for _, s := range c.stack {
		if s == key {
			return []*node{c.unknown("recursive call of "+name, call.Pos())}
		}
	}
	return []*node{{k: kCall, a: c.inline(callee, recvExpr, call, key)}}
}

func declName(d *ast.FuncDecl) string {
	if d.Recv == nil {
		return d.Name.Name
	}
	tn, _ := recvType(d.Recv.List[0].Type)
	return tn + "." + d.Name.Name
}

// resolve the callee of a call syntactically
func (c *ctx) resolve(fun ast.Expr) (*funcInfo, ast.Expr) {
	p := c.fn.pkg
	switch t := fun.(type) {
	case *ast.ParenExpr:
		return c.resolve(t.X)
	case *ast.IndexExpr: // generic instantiation
		return c.resolve(t.X)
	case *ast.Ident:
		if c.facts.declared[t.Name] {
			return nil, nil
		}
		return p.funcs[t.Name], nil
	case *ast.SelectorExpr:
		// pkg.F
		if id, ok := t.X.(*ast.Ident); ok && !c.facts.declared[id.Name] && c.types[id.Name] == nil {
			if ip, ok := p.files[c.fn.file][id.Name]; ok {
				if q := c.ix.load(ip); q != nil {
					return q.funcs[t.Sel.Name], nil
				}
				return nil, nil
			}
		}
		// value.M with a syntactically known type: receiver / parameter, then fields
		if ty := c.typeOf(t.X); ty != nil {
			return c.ix.method(ty, t.Sel.Name, 0), t.X
		}
	}
	return nil, nil
}

func (c *ctx) typeOf(e ast.Expr) *tyRef {
	switch t := e.(type) {
	case *ast.ParenExpr:
		return c.typeOf(t.X)
	case *ast.Ident:
		if c.facts.assigns[t.Name] > 1 { // re-declared or re-assigned: do not trust the declared type
			return nil
		}
		return c.types[t.Name]
	case *ast.SelectorExpr:
		if base := c.typeOf(t.X); base != nil {
			return c.ix.fieldType(base, t.Sel.Name)
		}
	}
	return nil
}

func (c *ctx) inline(callee *funcInfo, recvExpr ast.Expr, call *ast.CallExpr, key string) []*node {
	*c.fresh++
	id := *c.fresh
	tag := fmt.Sprintf("%s#%d.", declName(callee.decl), id)
	sub := newCtx(c.ix, callee, c.fresh)
	sub.stack = append(append([]string{}, c.stack...), key)
	sub.prefix = tag
	sub.writers = map[string]bool{}
	bind := func(param string, arg ast.Expr) {
		if param == "_" || param == "" {
			return
		}
		if c.isW(arg) {
			sub.writers[param] = true
			return
		}
		// a stable path of the caller keeps its name inside the callee;
		// anything else is just the callee's own parameter
		if name, _ := c.collName(arg); name != "" {
			sub.names[param] = name
		}
	}
	if callee.decl.Recv != nil && recvExpr != nil && len(callee.decl.Recv.List[0].Names) == 1 {
		bind(callee.decl.Recv.List[0].Names[0].Name, recvExpr)
	}
	var params []*ast.Field
	var pnames []string
	for _, f := range callee.decl.Type.Params.List {
		if len(f.Names) == 0 {
			pnames = append(pnames, "_")
			params = append(params, f)
		}
		for _, n := range f.Names {
			pnames = append(pnames, n.Name)
			params = append(params, f)
		}
	}
	for i, a := range call.Args {
		if i >= len(pnames) {
			if c.isW(a) {
				return []*node{c.unknown("the writer is passed as a variadic argument", call.Pos())}
			}
			continue
		}
		if _, variadic := params[i].Type.(*ast.Ellipsis); variadic {
			if c.isW(a) {
				return []*node{c.unknown("the writer is passed as a variadic argument", call.Pos())}
			}
			continue
		}
		bind(pnames[i], a)
	}
	return sub.block(callee.decl.Body.List)
}

// the collection passed at site.call (argument site.arg) keeps its length: the
// callee is a function of the module and its parameter is stable there
func (c *ctx) passOK(site passSite, depth int) bool {
	if depth > 4 || site.call.Ellipsis.IsValid() {
		return false
	}
	callee, _ := c.resolve(site.call.Fun)
	if callee == nil || callee.decl.Body == nil {
		return false
	}
	var pnames []string
	for _, f := range callee.decl.Type.Params.List {
		if _, variadic := f.Type.(*ast.Ellipsis); variadic {
			pnames = append(pnames, "")
			continue
		}
		if len(f.Names) == 0 {
			pnames = append(pnames, "_")
		}
		for _, n := range f.Names {
			pnames = append(pnames, n.Name)
		}
	}
	if site.arg >= len(pnames) || pnames[site.arg] == "" {
		return false
	}
	if pnames[site.arg] == "_" {
		return true
	}
	fresh := 0
	sub := newCtx(c.ix, callee, &fresh)
	param := pnames[site.arg]
	if why := sub.facts.unstable(param, param); why != "" {
		return false
	}
	return sub.facts.unstableAt(param, param, depth+1) == ""
}

func newCtx(ix *index, fn *funcInfo, fresh *int) *ctx {
	c := &ctx{ix: ix, fn: fn, writers: map[string]bool{}, names: map[string]string{}, types: map[string]*tyRef{},
		fresh: fresh}
	c.facts = analyse(ix, fn)
	c.facts.passOK = c.passOK
	if fn.decl.Recv != nil && len(fn.decl.Recv.List[0].Names) == 1 {
		c.types[fn.decl.Recv.List[0].Names[0].Name] = ix.typeOfExpr(fn.pkg, fn.file, fn.decl.Recv.List[0].Type)
	}
	for _, f := range fn.decl.Type.Params.List {
		for _, n := range f.Names {
			if ty := ix.typeOfExpr(fn.pkg, fn.file, f.Type); ty != nil && ty.pkg.structs[ty.name] != nil {
				c.types[n.Name] = ty
			}
		}
	}
	return c
}

// ---------------------------------------------------------------- stability of names

// Facts about one Go function, used to decide whether len(x) at one place and
// `range x` at another see the same length.
type fnFacts struct {
	ix        *index
	fn        *funcInfo
	declared  map[string]bool          // identifiers declared in the function (params, receiver, locals)
	assigns   map[string]int           // root identifier -> number of definitions/assignments of the identifier itself
	inLoop    map[string]bool          // ... one of them inside a loop or a function literal
	defPos    map[string]token.Pos     // position of the (last seen) definition
	defExpr   map[string]ast.Expr      // x := e  (single value)
	firstUse  map[string]token.Pos     // path -> first len()/range use
	badPaths  map[string]string        // path -> reason (assigned field, &, delete, passed to a call, pointer method)
	addrTaken map[string]bool          // identifiers under & (directly or through a field / index)
	passed    map[string][]passSite    // path -> calls it is passed to as a plain argument
	passOK    func(passSite, int) bool // is the callee known not to change the collection? (set by the context)
}

type passSite struct {
	call *ast.CallExpr
	arg  int
	name string
}

func analyse(ix *index, fn *funcInfo) *fnFacts {
	f := &fnFacts{ix: ix, fn: fn, declared: map[string]bool{}, assigns: map[string]int{}, inLoop: map[string]bool{},
		defPos: map[string]token.Pos{}, defExpr: map[string]ast.Expr{}, firstUse: map[string]token.Pos{},
		badPaths: map[string]string{}, addrTaken: map[string]bool{}, passed: map[string][]passSite{}}
	d := fn.decl
	declare := true
	def := func(name string, pos token.Pos, e ast.Expr, loop bool) {
		if name == "_" {
			return
		}
		if declare {
			f.declared[name] = true
		}
		f.assigns[name]++
		f.defPos[name] = pos
		f.defExpr[name] = e
		if loop {
			f.inLoop[name] = true
		}
	}
	if d.Recv != nil {
		for _, n := range d.Recv.List[0].Names {
			def(n.Name, d.Pos(), nil, false)
		}
	}
	for _, fl := range d.Type.Params.List {
		for _, n := range fl.Names {
			def(n.Name, d.Pos(), nil, false)
		}
	}
	if d.Type.Results != nil {
		for _, fl := range d.Type.Results.List {
			for _, n := range fl.Names {
				def(n.Name, d.Pos(), nil, false)
			}
		}
	}
	bad := func(e ast.Expr, why string) {
		for { // strip index / star / paren / slice: the underlying path is affected
			switch t := e.(type) {
			case *ast.IndexExpr:
				e = t.X
				continue
			case *ast.StarExpr:
				e = t.X
				continue
			case *ast.ParenExpr:
				e = t.X
				continue
			case *ast.SliceExpr:
				e = t.X
				continue
			}
			break
		}
		if _, p := pathOf(e); p != "" {
			if _, seen := f.badPaths[p]; !seen {
				f.badPaths[p] = why
			}
		}
	}
	var walk func(n ast.Node, loop bool)
	walk = func(n ast.Node, loop bool) {
		ast.Inspect(n, func(m ast.Node) bool {
			if m == nil {
				return true
			}
			switch t := m.(type) {
			case *ast.FuncLit:
				for _, fl := range t.Type.Params.List {
					for _, nm := range fl.Names {
						def(nm.Name, nm.Pos(), nil, true)
					}
				}
				walk(t.Body, true)
				return false
			case *ast.ForStmt:
				if t.Init != nil {
					walk(t.Init, true)
				}
				if t.Cond != nil {
					walk(t.Cond, true)
				}
				if t.Post != nil {
					walk(t.Post, true)
				}
				walk(t.Body, true)
				return false
			case *ast.RangeStmt:
				for _, kv := range []ast.Expr{t.Key, t.Value} {
					if kv == nil {
						continue
					}
					if id, ok := kv.(*ast.Ident); ok {
						declare = t.Tok == token.DEFINE
						def(id.Name, id.Pos(), nil, true)
						declare = true
					} else {
						bad(kv, "assigned as a range variable")
					}
				}
				if _, p := pathOf(t.X); p != "" {
					if _, ok := f.firstUse[p]; !ok {
						f.firstUse[p] = t.Pos()
					}
				}
				walk(t.X, loop)
				walk(t.Body, true)
				return false
			case *ast.SendStmt:
				bad(stripParens(t.Value), "sent on a channel")
			case *ast.CompositeLit:
				for _, el := range t.Elts {
					if kv, ok := el.(*ast.KeyValueExpr); ok {
						el = kv.Value
					}
					if _, p := pathOf(el); p != "" {
						bad(stripParens(el), "stored in a composite value")
					}
				}
			case *ast.AssignStmt:
				for _, r := range t.Rhs {
					if _, p := pathOf(r); p != "" {
						bad(stripParens(r), "copied to another variable")
					}
				}
				for i, l := range t.Lhs {
					if id, ok := l.(*ast.Ident); ok {
						var e ast.Expr
						if len(t.Lhs) == len(t.Rhs) && t.Tok != token.ADD_ASSIGN && (t.Tok == token.DEFINE || t.Tok == token.ASSIGN) {
							e = t.Rhs[i]
						}
						declare = t.Tok == token.DEFINE
						def(id.Name, id.Pos(), e, loop)
						declare = true
						if t.Tok != token.DEFINE && t.Tok != token.ASSIGN {
							f.assigns[id.Name]++ // op= : never a definition to look through
						}
					} else {
						bad(l, "assigned")
					}
				}
			case *ast.IncDecStmt:
				if id, ok := t.X.(*ast.Ident); ok {
					declare = false
					def(id.Name, id.Pos(), nil, loop)
					declare = true
					f.assigns[id.Name]++
				} else {
					bad(t.X, "incremented")
				}
			case *ast.DeclStmt:
				if gd, ok := t.Decl.(*ast.GenDecl); ok {
					for _, s := range gd.Specs {
						if vs, ok := s.(*ast.ValueSpec); ok {
							for i, nm := range vs.Names {
								var e ast.Expr
								if len(vs.Values) == len(vs.Names) {
									e = vs.Values[i]
								}
								def(nm.Name, nm.Pos(), e, loop)
							}
							for _, v := range vs.Values {
								if _, p := pathOf(v); p != "" {
									bad(stripParens(v), "copied to another variable")
								}
							}
						}
					}
				}
			case *ast.TypeSwitchStmt:
				if a, ok := t.Assign.(*ast.AssignStmt); ok {
					for _, l := range a.Lhs {
						if id, ok := l.(*ast.Ident); ok {
							def(id.Name, id.Pos(), nil, loop)
						}
					}
				}
			case *ast.UnaryExpr:
				if t.Op == token.AND {
					bad(t.X, "its address is taken")
					ast.Inspect(t.X, func(m ast.Node) bool {
						if id, ok := m.(*ast.Ident); ok {
							f.addrTaken[id.Name] = true
						}
						return true
					})
				}
			case *ast.CallExpr:
				fname := calleeText(t.Fun)
				if id, ok := t.Fun.(*ast.Ident); ok && (id.Name == "len" || id.Name == "cap") && len(t.Args) == 1 {
					if _, p := pathOf(t.Args[0]); p != "" && id.Name == "len" {
						if _, ok := f.firstUse[p]; !ok {
							f.firstUse[p] = t.Pos()
						}
					}
					return true
				}
				if fname == "delete" || fname == "clear" {
					if len(t.Args) > 0 {
						bad(t.Args[0], "passed to "+fname)
					}
					return true
				}
				// a map passed as a plain argument may be changed by the callee
				// (x... can only be a slice: its length cannot change for the caller)
				for i, a := range t.Args {
					if t.Ellipsis.IsValid() && i == len(t.Args)-1 {
						continue
					}
					if _, p := pathOf(a); p != "" {
						f.passed[p] = append(f.passed[p], passSite{t, i, fname})
					}
				}
				// a method with a pointer receiver may change the value it is called on
				if sel, ok := t.Fun.(*ast.SelectorExpr); ok {
					if _, p := pathOf(sel.X); p != "" && f.mayMutateRecv(sel.Sel.Name) {
						if _, isPkg := fn.pkg.files[fn.file][p]; !isPkg || f.declared[p] {
							bad(sel.X, "receiver of "+sel.Sel.Name+" (pointer receiver or unknown method)")
						}
					}
				}
			}
			return true
		})
	}
	if d.Body != nil {
		walk(d.Body, false)
	}
	return f
}

func stripParens(e ast.Expr) ast.Expr {
	for {
		p, ok := e.(*ast.ParenExpr)
		if !ok {
			return e
		}
		e = p.X
	}
}

// Can calling method `name` on an addressable value change that value?
// Yes if some method of that name in the module has a pointer receiver;
// unknown methods (not declared in any loaded package) are treated as such
// too, except methods of the writer, which is handled separately.
func (f *fnFacts) mayMutateRecv(name string) bool {
	known := false
	for _, p := range f.ix.pkgs {
		if p == nil {
			continue
		}
		if p.ptrRecv[name] {
			return true
		}
		if p.methods[name] {
			known = true
		}
	}
	return !known
}

// "" when `path` (rooted at identifier root) denotes the same collection, with
// the same length, wherever it is used in the function; otherwise the reason.
func (f *fnFacts) unstable(root, path string) string {
	if !f.declared[root] {
		return "not a local variable, parameter or receiver: " + root
	}
	if f.assigns[root] != 1 {
		return fmt.Sprintf("%s is assigned %d times", root, f.assigns[root])
	}
	if f.inLoop[root] {
		return root + " is defined inside a loop or function literal"
	}
	if use, ok := f.firstUse[path]; ok && f.defPos[root] > use {
		return root + " is assigned after its first use"
	}
	return f.unstableAt(root, path, 0)
}

func related(p, path string) bool {
	return p == path || strings.HasPrefix(path, p+".") || strings.HasPrefix(p, path+".")
}

func (f *fnFacts) unstableAt(root, path string, depth int) string {
	// any prefix of the path, or any extension of it, that is modified
	var keys []string
	for p := range f.badPaths {
		keys = append(keys, p)
	}
	sort.Strings(keys)
	for _, p := range keys {
		if related(p, path) {
			return p + " is " + f.badPaths[p]
		}
	}
	// ... or handed to a function that may change it (a map is shared with the
	// callee; we cannot tell maps from slices).  Harmless when the callee is a
	// function of the module in which the parameter is itself stable.
	keys = keys[:0]
	for p := range f.passed {
		keys = append(keys, p)
	}
	sort.Strings(keys)
	for _, p := range keys {
		if !related(p, path) {
			continue
		}
		for _, site := range f.passed[p] {
			if p != path || f.passOK == nil || !f.passOK(site, depth) {
				return p + " is passed to " + site.name
			}
		}
	}
	return ""
}

// x := e, the only assignment of local x, outside loops
func (f *fnFacts) singleDef(name string) ast.Expr {
	if !f.declared[name] || f.assigns[name] != 1 || f.inLoop[name] {
		return nil
	}
	if f.addrTaken[name] {
		return nil
	}
	return f.defExpr[name]
}

// ---------------------------------------------------------------- main

func isWriterType(e ast.Expr) bool {
	switch t := e.(type) {
	case *ast.SelectorExpr:
		id, ok := t.X.(*ast.Ident)
		return ok && id.Name == "redis" && t.Sel.Name == "Writer"
	case *ast.Ident:
		return t.Name == "Writer"
	}
	return false
}

func fatal(err error) {
	fmt.Fprintln(os.Stderr, "wprogs:", err)
	os.Exit(1)
}

func main() {
	repo := flag.String("repo", "/repo", "repository root")
	out := flag.String("out", "", "Coq file to write (coq/gen/WriterProgs.v)")
	verbose := flag.Bool("v", false, "print every translated command")
	flag.Parse()

	mod, err := os.ReadFile(filepath.Join(*repo, "go.mod"))
	if err != nil {
		fatal(err)
	}
	module := ""
	for _, line := range strings.Split(string(mod), "\n") {
		if strings.HasPrefix(line, "module ") {
			module = strings.TrimSpace(strings.TrimPrefix(line, "module "))
		}
	}
	if module == "" {
		fatal(fmt.Errorf("no module line in go.mod"))
	}
	abs, err := filepath.Abs(*repo)
	if err != nil {
		fatal(err)
	}
	ix := &index{repo: abs, module: module, fset: token.NewFileSet(), pkgs: map[string]*pkgInfo{}}

	// load the helper packages first so that method-name facts are complete
	ix.load(module + "/internal/redis")
	ix.load(module + "/internal/command")
	dirs, _ := filepath.Glob(filepath.Join(abs, "internal", "command", "*"))
	sort.Strings(dirs)
	var pkgs []*pkgInfo
	for _, d := range dirs {
		if st, err := os.Stat(d); err != nil || !st.IsDir() {
			continue
		}
		if p := ix.load(module + "/internal/command/" + filepath.Base(d)); p != nil {
			pkgs = append(pkgs, p)
		}
	}

	type entry struct {
		name string
		prog []*node
	}
	var entries []entry
	seen := map[string]bool{}
	for _, p := range pkgs {
		var keys []string
		for k := range p.funcs {
			keys = append(keys, k)
		}
		sort.Strings(keys)
		for _, k := range keys {
			fi := p.funcs[k]
			d := fi.decl
			if d.Recv == nil || d.Name.Name != "Run" || d.Body == nil {
				continue
			}
			params := d.Type.Params.List
			if len(params) == 0 || !isWriterType(params[0].Type) {
				continue
			}
			tn, _ := recvType(d.Recv.List[0].Type)
			name := p.name + "." + tn
			if seen[name] {
				fatal(fmt.Errorf("duplicate command %s", name))
			}
			seen[name] = true
			fresh := 0
			c := newCtx(ix, fi, &fresh)
			c.stack = []string{p.path + "." + declName(d)}
			for _, n := range params[0].Names {
				if n.Name != "_" {
					c.writers[n.Name] = true
				}
			}
			prog := simplify(lower(c.block(d.Body.List)))
			entries = append(entries, entry{name, prog})
		}
	}
	sort.Slice(entries, func(i, j int) bool { return entries[i].name < entries[j].name })

	var b strings.Builder
	b.WriteString("(* GENERATED by harness/cmd/wprogs from the repository's source on every run. Do not edit.\n")
	b.WriteString("   What every command's Run method does with its redis.Writer, in the IR of Writer.v. *)\n")
	b.WriteString("From Coq Require Import List String.\nImport ListNotations.\nFrom Redka Require Import Writer.\n")
	b.WriteString("Open Scope string_scope.\n\n")
	b.WriteString("Definition progs : list (string * list wstmt) := [\n")
	for i, e := range entries {
		sep := ";"
		if i == len(entries)-1 {
			sep = ""
		}
		fmt.Fprintf(&b, "  (%s, %s)%s\n", strconv.Quote(e.name), coqList(e.prog), sep)
	}
	b.WriteString("].\n")
	if *out != "" {
		if err := os.WriteFile(*out, []byte(b.String()), 0o644); err != nil {
			fatal(err)
		}
	} else {
		fmt.Print(b.String())
	}

	// report
	nUnknown := 0
	for _, e := range entries {
		var acc []string
		collectUnknown(e.prog, &acc)
		if *verbose {
			fmt.Fprintf(os.Stderr, "%s %s\n", e.name, coqList(e.prog))
		}
		for _, a := range acc {
			nUnknown++
			fmt.Fprintf(os.Stderr, "UNKNOWN %s: %s\n", e.name, a)
		}
	}
	fmt.Fprintf(os.Stderr, "wprogs: %d commands translated, %d unknown items\n", len(entries), nUnknown)
}
