// diffrun: differential lock-step runs of generated histories against the real
// redka library and the extracted Coq model.
package main

import (
	"bufio"
	"crypto/sha256"
	"encoding/json"
	"flag"
	"fmt"
	"os"
	"path/filepath"
	"sort"
	"strings"
	"sync"
	"time"

	"verif/harness/hx"
)

type Summary struct {
	Prop        string         `json:"property"`
	Profiles    []string       `json:"profiles"`
	Seed        int64          `json:"seed"`
	Histories   int            `json:"histories"`
	Corpus      int            `json:"corpus_histories"`
	Steps       int            `json:"steps"`
	Distinct    int            `json:"distinct_nontrivial"`
	OpHist      map[string]int `json:"op_histogram"`
	ErrHist     map[string]int `json:"result_class_histogram"`
	SpecOK      int            `json:"steps_compared_with_spec"`
	SpecSkipped int            `json:"steps_spec_skipped"`
	Excl        map[string]int `json:"known_finding_exclusions"`
	KnownLines  []string       `json:"known_finding_lines"`
	Failures    []Failure      `json:"failures"`
	Samples     []string       `json:"samples"`
	WallS       float64        `json:"wall_s"`
}

type Failure struct {
	Kind   string `json:"kind"`
	Replay string `json:"replay"`
	Detail string `json:"detail"`
}

type KnownFinding struct {
	Status     string   `json:"status"`
	Name       string   `json:"name"`
	Properties []string `json:"properties"`
	What       string   `json:"what"`
}

func loadKnown(path string) map[string]KnownFinding {
	out := map[string]KnownFinding{}
	f, err := os.Open(path)
	if err != nil {
		return out
	}
	defer f.Close()
	sc := bufio.NewScanner(f)
	sc.Buffer(make([]byte, 1<<20), 1<<20)
	for sc.Scan() {
		var k KnownFinding
		if json.Unmarshal(sc.Bytes(), &k) == nil && k.Status == "known" {
			out[k.Name] = k
		}
	}
	return out
}

func has(l []string, s string) bool {
	for _, x := range l {
		if x == s {
			return true
		}
	}
	return false
}

var (
	outDir  string
	maxFail int
)

func main() {
	prop := flag.String("prop", "", "property id (selects corpus entries and known findings)")
	profiles := flag.String("profiles", "str", "comma-separated generator profiles")
	seed := flag.Int64("seed", 1, "PRNG seed")
	n := flag.Int("n", 200, "number of histories per profile")
	workers := flag.Int("workers", 16, "parallel executors")
	flag.StringVar(&outDir, "out", "/verif/replays", "directory for replay files")
	replay := flag.String("replay", "", "replay file to re-run instead of generating")
	flag.IntVar(&maxFail, "maxfail", 3, "report at most this many failures per kind")
	known := flag.String("known", "/verif/KNOWN_FINDINGS.jsonl", "known findings file")
	noCorpus := flag.Bool("nocorpus", false, "skip the corpus")
	flag.Parse()
	hx.ViewAudit = *prop == "C11" || os.Getenv("HX_VIEWS") != ""
	start := time.Now()

	if *replay != "" {
		os.Exit(doReplay(*replay))
	}
	kf := loadKnown(*known)
	sum := Summary{Prop: *prop, Seed: *seed, OpHist: map[string]int{}, ErrHist: map[string]int{}, Excl: map[string]int{}}
	seen := map[[32]byte]bool{}
	failKinds := map[string]int{}

	// 0. (view audit) keys in the last second of their life
	if hx.ViewAudit && !*noCorpus {
		if msg := hx.ViewsInTheLastSecond(); msg != "" {
			sum.Failures = append(sum.Failures, Failure{Kind: "audit", Detail: msg})
		}
	}
	// 1. the corpus: witnesses of repaired defects and of known findings
	if !*noCorpus {
		for i, e := range hx.Corpus {
			if *prop != "" && !has(e.Props, *prop) {
				continue
			}
			h := hx.CorpusHistory(i)
			v, t := hx.CheckOne(h)
			sum.Corpus++
			account(&sum, t, nil, seen)
			for k, c := range v.Excl {
				sum.Excl[k] += c
			}
			// a recorded finding that shows as a failed end-to-end condition (not as a step the
			// model can name): listed in the committed file => KNOWN-FINDING, otherwise a violation
			if e.Known != "" && v.Kind == hx.KindVerify && strings.Contains(v.Detail, e.Known) {
				if k, ok := kf[e.Known]; ok {
					if *prop == "" || has(k.Properties, *prop) {
						sum.KnownLines = append(sum.KnownLines, fmt.Sprintf("KNOWN-FINDING: property=%s %s (%s; witness corpus:%s)", pick(*prop, k.Properties), k.What, k.Name, e.Name))
					}
					continue
				}
			}
			if v.Kind != hx.KindNone {
				var ms []hx.ModelStep
				if m, err := hx.RunModel([]*hx.HistTrace{t}); err == nil {
					ms = m[0]
				}
				path := writeReplay("corpus", int64(i), h.ID, v, t, ms, e.Name)
				sum.Failures = append(sum.Failures, Failure{Kind: v.Kind, Replay: path, Detail: "corpus " + e.Name + ": " + v.Detail})
				continue
			}
			if e.Known != "" && v.Excl[e.Known] > 0 {
				if k, ok := kf[e.Known]; ok && (*prop == "" || has(k.Properties, *prop)) {
					sum.KnownLines = append(sum.KnownLines, fmt.Sprintf("KNOWN-FINDING: property=%s %s (%s; witness corpus:%s)", pick(*prop, k.Properties), k.What, k.Name, e.Name))
				}
			}
		}
	}

	// 2. generated histories
	for _, pname := range strings.Split(*profiles, ",") {
		if pname == "" {
			continue
		}
		prof, okp := hx.Profiles[pname]
		if !okp {
			fmt.Fprintf(os.Stderr, "unknown profile %s\n", pname)
			os.Exit(2)
		}
		sum.Profiles = append(sum.Profiles, pname)
		g := hx.NewGen(*seed, prof)
		hs := make([]*hx.History, *n)
		for i := range hs {
			hs[i] = g.History(i)
		}
		traces := make([]*hx.HistTrace, len(hs))
		var wg sync.WaitGroup
		sem := make(chan struct{}, *workers)
		for i := range hs {
			wg.Add(1)
			sem <- struct{}{}
			go func(i int) {
				defer wg.Done()
				defer func() { <-sem }()
				traces[i] = hx.Execute(hs[i])
			}(i)
		}
		wg.Wait()
		sum.Histories += len(hs)
		var runnable []*hx.HistTrace
		for _, t := range traces {
			if t.Err != nil {
				sum.Failures = append(sum.Failures, Failure{Kind: hx.KindHarness, Detail: t.Err.Error()})
				continue
			}
			runnable = append(runnable, t)
		}
		ms, err := hx.RunModel(runnable)
		if err != nil {
			sum.Failures = append(sum.Failures, Failure{Kind: hx.KindHarness, Detail: err.Error()})
			continue
		}
		for i, t := range runnable {
			v := hx.Compare(t, ms[i])
			account(&sum, t, ms[i], seen)
			for k, c := range v.Excl {
				sum.Excl[k] += c
				if _, listed := kf[k]; !listed {
					v.Kind = "unlisted-exclusion"
					v.Detail = "the model excludes a step under a finding that KNOWN_FINDINGS.jsonl does not list: " + k
				}
			}
			if v.Kind != hx.KindNone {
				if failKinds[v.Kind] >= maxFail {
					continue
				}
				failKinds[v.Kind]++
				small := t.H
				if v.Kind != hx.KindHarness && v.Kind != "unlisted-exclusion" {
					small = hx.Shrink(t.H, v.Kind)
				}
				v2, t2 := hx.CheckOne(small)
				var ms2 []hx.ModelStep
				if m2, err := hx.RunModel([]*hx.HistTrace{t2}); err == nil {
					ms2 = m2[0]
				}
				if v2.Kind == hx.KindNone {
					v2, t2, ms2 = v, t, ms[i]
				}
				path := writeReplay(pname, *seed, t.H.ID, v2, t2, ms2, "")
				sum.Failures = append(sum.Failures, Failure{Kind: v2.Kind, Replay: path, Detail: v2.Detail})
			}
		}
	}
	// known findings met by the generated histories are reported once each
	names := make([]string, 0, len(sum.Excl))
	for k := range sum.Excl {
		names = append(names, k)
	}
	sort.Strings(names)
	for _, name := range names {
		k, ok := kf[name]
		if !ok || (*prop != "" && !has(k.Properties, *prop)) {
			continue
		}
		line := fmt.Sprintf("KNOWN-FINDING: property=%s %s (%s", pick(*prop, k.Properties), k.What, k.Name)
		dup := false
		for _, l := range sum.KnownLines {
			if strings.HasPrefix(l, line) {
				dup = true
			}
		}
		if !dup {
			sum.KnownLines = append(sum.KnownLines, line+fmt.Sprintf("; met %d times in generated histories)", sum.Excl[name]))
		}
	}
	finish(&sum, start)
}

func pick(prop string, props []string) string {
	if prop != "" {
		return prop
	}
	if len(props) > 0 {
		return props[0]
	}
	return "?"
}

// account adds one executed history to the coverage counters.
func account(sum *Summary, t *hx.HistTrace, ms []hx.ModelStep, seen map[[32]byte]bool) {
	nontrivial := false
	var sig strings.Builder
	for si, st := range t.Steps {
		_ = si
		sum.Steps++
		for _, in := range st.Input {
			f := strings.Fields(in)
			if len(f) >= 3 && f[0] == "O" {
				sum.OpHist[f[2]]++
			} else if len(f) >= 2 && f[0] == "o" {
				sum.OpHist[f[1]]++
			}
		}
		for _, part := range strings.Split(st.R, " ; ") {
			f := strings.Fields(part)
			cls := "ok"
			if len(f) > 1 && f[0] == "err" {
				cls = f[1]
				if strings.HasPrefix(cls, "!sql:other") {
					cls = "!sql:other"
				}
			}
			sum.ErrHist[cls]++
		}
		if si > 0 && st.D != t.Steps[si-1].D && len(t.Steps[si-1].D) > 40 {
			nontrivial = true // a state change on a non-empty database
		}
		sig.WriteString(strings.Join(st.Input, "|"))
	}
	h := sha256.Sum256([]byte(stripTimes(sig.String())))
	if nontrivial && !seen[h] {
		seen[h] = true
		sum.Distinct++
	}
	for _, m := range ms {
		switch {
		case m.V == "ok":
			sum.SpecOK++
		case strings.HasPrefix(m.V, "skip"):
			sum.SpecSkipped++
		}
	}
	if len(sum.Samples) < 3 && len(t.Steps) > 2 {
		var b []string
		for _, st := range t.Steps[:min(len(t.Steps), 5)] {
			b = append(b, strings.Join(st.Input, " / ")+" => "+st.R)
		}
		sum.Samples = append(sum.Samples, strings.Join(b, " ;; "))
	}
}

func min(a, b int) int {
	if a < b {
		return a
	}
	return b
}

// stripTimes removes the time stamps from model input so that histories are
// compared structurally.
func stripTimes(s string) string {
	f := strings.Fields(s)
	for i := range f {
		if i > 0 && (f[i-1] == "O" || f[i-1] == "T") {
			f[i] = "t"
		}
	}
	return strings.Join(f, " ")
}

func finish(sum *Summary, start time.Time) {
	sum.WallS = time.Since(start).Seconds()
	enc := json.NewEncoder(os.Stdout)
	enc.SetIndent("", " ")
	_ = enc.Encode(sum)
	if len(sum.Failures) > 0 {
		os.Exit(1)
	}
}

type ReplayFile struct {
	Profile string   `json:"profile"`
	Seed    int64    `json:"seed"`
	History int      `json:"history"`
	Corpus  string   `json:"corpus,omitempty"`
	Kind    string   `json:"kind"`
	Detail  string   `json:"detail"`
	Keep    [][]int  `json:"keep"`
	Input   []string `json:"input"`
	Trace   string   `json:"trace"`
	Rerun   string   `json:"rerun"`
}

func writeReplay(profile string, seed int64, hid int, v hx.Verdict, t *hx.HistTrace, ms []hx.ModelStep, corpus string) string {
	_ = os.MkdirAll(outDir, 0o755)
	rf := ReplayFile{Profile: profile, Seed: seed, History: hid, Kind: v.Kind, Detail: v.Detail, Keep: t.H.Keep(), Corpus: corpus}
	for _, st := range t.Steps {
		rf.Input = append(rf.Input, st.Input...)
	}
	rf.Trace = hx.Describe(t, ms)
	path := filepath.Join(outDir, fmt.Sprintf("%s-seed%d-h%d-%s.json", profile, seed, hid, v.Kind))
	rf.Rerun = fmt.Sprintf("/verif/build/diffrun -replay %s", path)
	b, _ := json.MarshalIndent(rf, "", " ")
	_ = os.WriteFile(path, b, 0o644)
	return path
}

// doReplay re-executes the recorded history against the current tree.
func doReplay(path string) int {
	b, err := os.ReadFile(path)
	if err != nil {
		fmt.Fprintln(os.Stderr, err)
		return 2
	}
	var rf ReplayFile
	if err := json.Unmarshal(b, &rf); err != nil {
		fmt.Fprintln(os.Stderr, err)
		return 2
	}
	var h *hx.History
	if rf.Corpus != "" {
		for i, e := range hx.Corpus {
			if e.Name == rf.Corpus {
				h = hx.CorpusHistory(i)
			}
		}
		if h == nil {
			fmt.Fprintln(os.Stderr, "unknown corpus entry", rf.Corpus)
			return 2
		}
	} else {
		full, okr := hx.Regenerate(rf.Profile, rf.Seed, rf.History)
		if !okr {
			fmt.Fprintln(os.Stderr, "cannot regenerate history: unknown profile", rf.Profile)
			return 2
		}
		h = full.Select(rf.Keep)
	}
	v, t := hx.CheckOne(h)
	var ms []hx.ModelStep
	if m, err := hx.RunModel([]*hx.HistTrace{t}); err == nil {
		ms = m[0]
	}
	fmt.Print(hx.Describe(t, ms))
	if v.Kind == hx.KindNone {
		fmt.Println("REPLAY: no disagreement on the current tree")
		return 0
	}
	fmt.Printf("REPLAY: %s\n%s\n", v.Kind, v.Detail)
	return 1
}
