// diffrun: differential lock-step runs of generated histories against the real
// redka library and the extracted Coq model.
package main

import (
	"crypto/sha256"
	"encoding/json"
	"flag"
	"fmt"
	"os"
	"path/filepath"
	"sort"
	"strings"
	"sync"
	"time"

	"verif/harness/hx"
)

type Summary struct {
	Profile     string         `json:"profile"`
	Seed        int64          `json:"seed"`
	Histories   int            `json:"histories"`
	Steps       int            `json:"steps"`
	Distinct    int            `json:"distinct_nontrivial"`
	OpHist      map[string]int `json:"op_histogram"`
	ErrHist     map[string]int `json:"result_class_histogram"`
	SpecOK      int            `json:"steps_compared_with_spec"`
	SpecSkipped int            `json:"steps_spec_skipped"`
	Excl        map[string]int `json:"known_finding_exclusions"`
	Failures    []Failure      `json:"failures"`
	Samples     []string       `json:"samples"`
	WallS       float64        `json:"wall_s"`
}

type Failure struct {
	Kind   string `json:"kind"`
	Replay string `json:"replay"`
	Detail string `json:"detail"`
}

func main() {
	profile := flag.String("profile", "str", "generator profile")
	seed := flag.Int64("seed", 1, "PRNG seed")
	n := flag.Int("n", 200, "number of histories")
	workers := flag.Int("workers", 16, "parallel executors")
	out := flag.String("out", "/verif/replays", "directory for replay files")
	replay := flag.String("replay", "", "replay file to re-run instead of generating")
	maxFail := flag.Int("maxfail", 3, "stop after this many distinct failures")
	flag.Parse()
	start := time.Now()

	if *replay != "" {
		os.Exit(doReplay(*replay))
	}

	prof, okp := hx.Profiles[*profile]
	if !okp {
		fmt.Fprintf(os.Stderr, "unknown profile %s\n", *profile)
		os.Exit(2)
	}
	// histories are generated sequentially from one PRNG, executed in parallel
	g := hx.NewGen(*seed, prof)
	hs := make([]*hx.History, *n)
	for i := range hs {
		hs[i] = g.History(i)
	}
	traces := make([]*hx.HistTrace, len(hs))
	var wg sync.WaitGroup
	sem := make(chan struct{}, *workers)
	for i := range hs {
		wg.Add(1)
		sem <- struct{}{}
		go func(i int) {
			defer wg.Done()
			defer func() { <-sem }()
			traces[i] = hx.Execute(hs[i])
		}(i)
	}
	wg.Wait()

	sum := Summary{Profile: *profile, Seed: *seed, Histories: len(hs),
		OpHist: map[string]int{}, ErrHist: map[string]int{}, Excl: map[string]int{}}
	var runnable []*hx.HistTrace
	for _, t := range traces {
		if t.Err != nil {
			sum.Failures = append(sum.Failures, Failure{Kind: hx.KindHarness, Detail: t.Err.Error()})
			continue
		}
		runnable = append(runnable, t)
	}
	ms, err := hx.RunModel(runnable)
	if err != nil {
		sum.Failures = append(sum.Failures, Failure{Kind: hx.KindHarness, Detail: err.Error()})
		finish(&sum, start)
		return
	}
	seen := map[[32]byte]bool{}
	failKinds := map[string]int{}
	for i, t := range runnable {
		v := hx.Compare(t, ms[i])
		nontrivial := false
		var sig strings.Builder
		for si, st := range t.Steps {
			sum.Steps++
			for _, op := range t.H.Steps[si].Ops {
				sum.OpHist[op.Name]++
			}
			for _, part := range strings.Split(st.R, " ; ") {
				f := strings.Fields(part)
				cls := "ok"
				if len(f) > 1 && f[0] == "err" {
					cls = f[1]
					if strings.HasPrefix(cls, "!sql:other") {
						cls = "!sql:other"
					}
				}
				sum.ErrHist[cls]++
			}
			if si > 0 && st.D != t.Steps[si-1].D && len(t.Steps[si-1].D) > 40 {
				nontrivial = true // a state change on a non-empty database
			}
			sig.WriteString(strings.Join(st.Input, "|"))
		}
		h := sha256.Sum256([]byte(stripTimes(sig.String())))
		if nontrivial && !seen[h] {
			seen[h] = true
			sum.Distinct++
		}
		for _, m := range ms[i] {
			switch {
			case m.V == "ok":
				sum.SpecOK++
			case strings.HasPrefix(m.V, "skip"):
				sum.SpecSkipped++
			}
		}
		for k, c := range v.Excl {
			sum.Excl[k] += c
		}
		if len(sum.Samples) < 3 && len(t.Steps) > 0 {
			var b []string
			for _, st := range t.Steps[:min(len(t.Steps), 6)] {
				b = append(b, strings.Join(st.Input, " / ")+" => "+st.R)
			}
			sum.Samples = append(sum.Samples, strings.Join(b, " ;; "))
		}
		if v.Kind != hx.KindNone {
			if failKinds[v.Kind] >= *maxFail {
				continue
			}
			failKinds[v.Kind]++
			small := t.H
			if v.Kind != hx.KindHarness {
				small = hx.Shrink(t.H, v.Kind)
			}
			v2, t2 := hx.CheckOne(small)
			var ms2 []hx.ModelStep
			if m2, err := hx.RunModel([]*hx.HistTrace{t2}); err == nil {
				ms2 = m2[0]
			}
			if v2.Kind == hx.KindNone {
				v2 = v
				t2 = t
				ms2 = ms[i]
			}
			path := writeReplay(*out, *profile, *seed, t.H.ID, v2, t2, ms2)
			sum.Failures = append(sum.Failures, Failure{Kind: v2.Kind, Replay: path, Detail: v2.Detail})
		}
	}
	finish(&sum, start)
}

func min(a, b int) int {
	if a < b {
		return a
	}
	return b
}

// stripTimes removes the time stamps from model input so that histories are
// compared structurally.
func stripTimes(s string) string {
	f := strings.Fields(s)
	for i := range f {
		if i > 0 && (f[i-1] == "O" || f[i-1] == "T") {
			f[i] = "t"
		}
	}
	return strings.Join(f, " ")
}

func finish(sum *Summary, start time.Time) {
	sum.WallS = time.Since(start).Seconds()
	enc := json.NewEncoder(os.Stdout)
	enc.SetIndent("", " ")
	_ = enc.Encode(sum)
	if len(sum.Failures) > 0 {
		os.Exit(1)
	}
}

type ReplayFile struct {
	Profile string   `json:"profile"`
	Seed    int64    `json:"seed"`
	History int      `json:"history"`
	Kind    string   `json:"kind"`
	Detail  string   `json:"detail"`
	Keep    [][]int  `json:"keep"`
	Input   []string `json:"input"`
	Trace   string   `json:"trace"`
	Rerun   string   `json:"rerun"`
}

func writeReplay(dir, profile string, seed int64, hid int, v hx.Verdict, t *hx.HistTrace, ms []hx.ModelStep) string {
	_ = os.MkdirAll(dir, 0o755)
	rf := ReplayFile{Profile: profile, Seed: seed, History: hid, Kind: v.Kind, Detail: v.Detail, Keep: t.H.Keep()}
	for _, st := range t.Steps {
		rf.Input = append(rf.Input, st.Input...)
	}
	rf.Trace = hx.Describe(t, ms)
	path := filepath.Join(dir, fmt.Sprintf("%s-seed%d-h%d-%s.json", profile, seed, hid, v.Kind))
	rf.Rerun = fmt.Sprintf("/verif/build/diffrun -replay %s", path)
	b, _ := json.MarshalIndent(rf, "", " ")
	_ = os.WriteFile(path, b, 0o644)
	return path
}

// doReplay re-executes the recorded model input against the current tree.
func doReplay(path string) int {
	b, err := os.ReadFile(path)
	if err != nil {
		fmt.Fprintln(os.Stderr, err)
		return 2
	}
	var rf ReplayFile
	if err := json.Unmarshal(b, &rf); err != nil {
		fmt.Fprintln(os.Stderr, err)
		return 2
	}
	full, okr := hx.Regenerate(rf.Profile, rf.Seed, rf.History)
	if !okr {
		fmt.Fprintln(os.Stderr, "cannot regenerate history: unknown profile", rf.Profile)
		return 2
	}
	h := full.Select(rf.Keep)
	v, t := hx.CheckOne(h)
	var ms []hx.ModelStep
	if m, err := hx.RunModel([]*hx.HistTrace{t}); err == nil {
		ms = m[0]
	}
	fmt.Print(hx.Describe(t, ms))
	if v.Kind == hx.KindNone {
		fmt.Println("REPLAY: no disagreement on the current tree")
		return 0
	}
	keys := make([]string, 0)
	for k := range v.Excl {
		keys = append(keys, k)
	}
	sort.Strings(keys)
	fmt.Printf("REPLAY: %s\n%s\n", v.Kind, v.Detail)
	return 1
}
