#!/bin/sh
# Build the harness binaries against /repo's current working tree (hooks on).
set -e
cd "$(dirname "$0")"
export GOFLAGS=-mod=mod GOPROXY=off GOSUMDB=off GOTOOLCHAIN=local CGO_ENABLED=1
cp /repo/go.sum go.sum
mkdir -p ../build
# the real server binary, from the working tree
OUT="$(cd .. && pwd)/build"
( cd /repo && go build -o "$OUT/redka-server" ./cmd/redka )
for c in cmd/*; do
  go build -tags verif -o ../build/$(basename $c) ./$c
done
