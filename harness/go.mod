module verif/harness

go 1.22

require (
	github.com/mattn/go-sqlite3 v1.14.22
	github.com/nalgeon/redka v0.0.0
	github.com/tidwall/redcon v1.6.2
)

require (
	github.com/tidwall/btree v1.7.0 // indirect
	github.com/tidwall/match v1.1.1 // indirect
)

replace github.com/nalgeon/redka => /repo
