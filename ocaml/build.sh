#!/bin/sh
# Extract the Coq model to OCaml and build the modelrun driver.
set -e
cd "$(dirname "$0")"
( cd ../coq && { [ -f Makefile ] || coq_makefile -f _CoqProject -o Makefile; } && make -j16 > /dev/null )
rm -rf extracted && mkdir -p extracted
( cd extracted && coqc -Q ../../coq Redka ../../coq/Extract.v > /dev/null )
cp modelrun.ml float64.ml extracted/
cat > extracted/dune <<'EOD'
(executable (name modelrun) (ocamlopt_flags (:standard -O3 -unboxed-types))
 (flags (:standard -w -a)))
EOD
cat > extracted/dune <<'EOD'
(executable (name modelrun) (flags (:standard -w -a)))
EOD
echo '(lang dune 2.9)' > extracted/dune-project
( cd extracted && dune build --profile release ./modelrun.exe 2>&1 )
mkdir -p ../build && cp -f extracted/_build/default/modelrun.exe ../build/modelrun
