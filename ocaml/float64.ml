(* Shim for the kernel's Float64 module that ExtrOCamlFloats refers to:
   binary64 = OCaml float (IEEE-754 double, round to nearest even).
   Part of the trusted base of the correspondence check. *)
type t = float

let of_float (x : float) : t = x
let to_float (x : t) : float = x

let is_nan (x : t) = x <> x
let opp (x : t) : t = -. x
let abs (x : t) : t = Float.abs x

let eq (x : t) (y : t) = (x = y)
let lt (x : t) (y : t) = (x < y)
let le (x : t) (y : t) = (x <= y)

let add (x : t) (y : t) : t = x +. y
let sub (x : t) (y : t) : t = x -. y
let mul (x : t) (y : t) : t = x *. y
let div (x : t) (y : t) : t = x /. y
let sqrt (x : t) : t = Float.sqrt x
