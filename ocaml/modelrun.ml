(* modelrun — drives the extracted Coq model over a trace written by the Go
   harness and prints, per step, the faithful model's result and table dump and
   the verdict of the comparison with the abstract specification.
   Hand-written glue (trusted base of the correspondence check): token parsing,
   canonical printing, Z <-> decimal conversion. *)

module L = Stdlib.List
module Str_ = Stdlib.String
open BinNums
open Base
open Db

(* ---------- Z <-> decimal ---------- *)

let rec pos_of_int (n : int) : positive =
  if n = 1 then Coq_xH
  else if n land 1 = 0 then Coq_xO (pos_of_int (n lsr 1))
  else Coq_xI (pos_of_int (n lsr 1))

let z_of_int (n : int) : coq_Z =
  if n = 0 then Z0 else if n > 0 then Zpos (pos_of_int n) else Zneg (pos_of_int (-n))

let z10 = z_of_int 10

let z_of_string (s : string) : coq_Z =
  let neg = Str_.length s > 0 && s.[0] = '-' in
  let start = if neg || (Str_.length s > 0 && s.[0] = '+') then 1 else 0 in
  let acc = ref Z0 in
  for i = start to Str_.length s - 1 do
    let d = Char.code s.[i] - 48 in
    if d < 0 || d > 9 then failwith ("bad integer " ^ s);
    acc := BinInt.Z.add (BinInt.Z.mul !acc z10) (z_of_int d)
  done;
  if neg then BinInt.Z.opp !acc else !acc

let rec int_of_pos (p : positive) : int =
  match p with
  | Coq_xH -> 1
  | Coq_xO q -> 2 * int_of_pos q
  | Coq_xI q -> 2 * int_of_pos q + 1

let small_int_of_z (z : coq_Z) : int =
  match z with Z0 -> 0 | Zpos p -> int_of_pos p | Zneg p -> - (int_of_pos p)

let string_of_z (z : coq_Z) : string =
  let rec digits (z : coq_Z) (acc : string) : string =
    match z with
    | Z0 -> if acc = "" then "0" else acc
    | _ ->
        let (q, r) = BinInt.Z.div_eucl z z10 in
        digits q (string_of_int (small_int_of_z r) ^ acc)
  in
  match z with
  | Z0 -> "0"
  | Zpos _ -> digits z ""
  | Zneg p -> "-" ^ digits (Zpos p) ""

(* ---------- hex ---------- *)

let hex_of_string (s : string) : string =
  let b = Buffer.create (2 * Str_.length s) in
  Str_.iter (fun c -> Buffer.add_string b (Printf.sprintf "%02x" (Char.code c))) s;
  Buffer.contents b

let string_of_hex (h : string) : string =
  let n = Str_.length h / 2 in
  Str_.init n (fun i -> Char.chr (int_of_string ("0x" ^ Str_.sub h (2 * i) 2)))

let float_of_bits (h : string) : float =
  if h = "nan" then Float.nan else Int64.float_of_bits (Int64.of_string ("0x" ^ h))
let bits_of_float (f : float) : string =
  if f <> f then "nan" else Printf.sprintf "%016Lx" (Int64.bits_of_float f)

(* ---------- printing results ---------- *)

let sqlerr_str = function
  | SqNotNull c -> "notnull:" ^ c
  | SqUnique c -> "unique:" ^ c
  | SqMismatch -> "mismatch"
  | SqVacuum -> "vacuum"
  | SqScanNull -> "scannull"
  | SqReadOnly -> "readonly"
  | SqFault -> "fault"

let err_str = function
  | ENotFound -> "!notfound"
  | EKeyType -> "!keytype"
  | EValueType -> "!valuetype"
  | ESql e -> "!sql:" ^ sqlerr_str e

let rec rv_str (v : rv) : string =
  match v with
  | VNone -> "_"
  | VI z -> "i" ^ string_of_z z
  | VB b -> if b then "b1" else "b0"
  | VS s -> "s" ^ hex_of_string s
  | VF f -> "f" ^ bits_of_float f
  | VL l -> "[" ^ Str_.concat "" (L.map (fun x -> " " ^ rv_str x) l) ^ " ]"
  | VU l ->
      let items = L.sort compare (L.map rv_str l) in
      "{" ^ Str_.concat "" (L.map (fun x -> " " ^ x) items) ^ " }"
  | VE e -> err_str e

let out_str (o : out) : string =
  match o.o_err with
  | None -> "ok " ^ rv_str o.o_val
  | Some e -> "err " ^ err_str e ^ " " ^ rv_str o.o_val

(* ---------- printing states ---------- *)

let optz_str = function None -> "_" | Some z -> string_of_z z

let xhex (x : string) : string = "x" ^ hex_of_string x

let dump_str (d : db) : string =
  let b = Buffer.create 256 in
  let add = Buffer.add_string b in
  add "K";
  L.iter (fun r ->
      add (Printf.sprintf " (%s %s %s %s %s %s %s)" (string_of_z r.k_id) (xhex r.k_key)
             (string_of_z r.k_type) (string_of_z r.k_ver) (optz_str r.k_etime)
             (string_of_z r.k_mtime) (optz_str r.k_len))) d.rkey;
  add " | S";
  let srows = L.sort compare (L.map (fun r -> (small_int_of_z r.s_kid, xhex r.s_val)) d.rstring) in
  L.iter (fun (k, v) -> add (Printf.sprintf " (%d %s)" k v)) srows;
  add " | L";
  let lrows = L.stable_sort (fun a b ->
      let c = compare (small_int_of_z a.l_kid) (small_int_of_z b.l_kid) in
      if c <> 0 then c else compare (Float64.to_float a.l_pos) (Float64.to_float b.l_pos)) d.rlist in
  L.iter (fun r -> add (Printf.sprintf " (%s %s)" (string_of_z r.l_kid) (xhex r.l_elem))) lrows;
  add " | E";
  L.iter (fun r -> add (Printf.sprintf " (%s %s %s)" (string_of_z r.e_rid) (string_of_z r.e_kid) (xhex r.e_elem))) d.rset;
  add " | H";
  L.iter (fun r -> add (Printf.sprintf " (%s %s %s %s)" (string_of_z r.h_rid) (string_of_z r.h_kid)
                         (xhex r.h_field) (xhex r.h_val))) d.rhash;
  add " | Z";
  L.iter (fun r -> add (Printf.sprintf " (%s %s %s %s)" (string_of_z r.z_rid) (string_of_z r.z_kid)
                         (xhex r.z_elem) (bits_of_float (Float64.to_float r.z_score)))) d.rzset;
  Buffer.contents b

let aval_str (v : Spec.aval) : string =
  match v with
  | Spec.AVStr s -> "S" ^ hex_of_string s
  | Spec.AVList l -> "L[" ^ Str_.concat "," (L.map hex_of_string l) ^ "]"
  | Spec.AVSet l -> "U{" ^ Str_.concat "," (L.sort compare (L.map hex_of_string l)) ^ "}"
  | Spec.AVHash l ->
      "H{" ^ Str_.concat "," (L.sort compare (L.map (fun (f, v) -> hex_of_string f ^ "=" ^ hex_of_string v) l)) ^ "}"
  | Spec.AVZSet l ->
      "Z{" ^ Str_.concat "," (L.sort compare (L.map (fun (e, s) -> hex_of_string e ^ "=" ^ bits_of_float (Float64.to_float s)) l)) ^ "}"

let sstate_str (s : Spec.sstate) : string =
  let items = L.sort compare (L.map (fun (k, e) ->
      hex_of_string k ^ ":" ^ aval_str e.Spec.en_val ^ "@" ^ optz_str e.Spec.en_exp) s) in
  Str_.concat " " items

(* ---------- parsing tokens ---------- *)

exception Parse_error of string

let toks : string list ref = ref []
let next () =
  match !toks with
  | t :: r -> toks := r; t
  | [] -> raise (Parse_error "unexpected end of line")
let peek () = match !toks with t :: _ -> t | [] -> raise (Parse_error "unexpected end of line")

let tail1 t = Str_.sub t 1 (Str_.length t - 1)

let p_bytes () =
  let t = next () in
  if t = "" || t.[0] <> 's' then raise (Parse_error ("expected bytes, got " ^ t));
  string_of_hex (tail1 t)
let p_int () =
  let t = next () in
  if t = "" || t.[0] <> 'i' then raise (Parse_error ("expected int, got " ^ t));
  z_of_string (tail1 t)
let p_float () =
  let t = next () in
  if t = "" || t.[0] <> 'f' then raise (Parse_error ("expected float, got " ^ t));
  Float64.of_float (float_of_bits (tail1 t))
let p_opt (p : unit -> 'a) : 'a option =
  if peek () = "n" then (ignore (next ()); None) else Some (p ())
let p_list (p : unit -> 'a) : 'a list =
  let t = next () in
  if t <> "[" then raise (Parse_error ("expected [, got " ^ t));
  let acc = ref [] in
  while peek () <> "]" do acc := p () :: !acc done;
  ignore (next ());
  L.rev !acc
let p_pair (pa : unit -> 'a) (pb : unit -> 'b) : 'a * 'b =
  let t = next () in
  if t <> "(" then raise (Parse_error ("expected (, got " ^ t));
  let a = pa () in
  let b = pb () in
  let t = next () in
  if t <> ")" then raise (Parse_error ("expected ), got " ^ t));
  (a, b)
let p_bool () =
  match next () with "b0" -> false | "b1" -> true | t -> raise (Parse_error ("expected bool, got " ^ t))

let p_value () : value =
  let t = next () in
  if Str_.length t < 2 || t.[0] <> 'v' then raise (Parse_error ("expected value, got " ^ t));
  let body = Str_.sub t 2 (Str_.length t - 2) in
  match t.[1] with
  | 's' -> AStr (string_of_hex body)
  | 'b' -> ABytes (string_of_hex body)
  | 'n' -> ANil
  | 'i' -> AInt (z_of_string body)
  | 'B' -> ABool (body = "1")
  | 'f' ->
      (match Str_.split_on_char ':' body with
       | [bits; text] -> AFloat (Float64.of_float (float_of_bits bits), string_of_hex text)
       | _ -> raise (Parse_error ("bad float value " ^ t)))
  | '?' -> ABad
  | _ -> raise (Parse_error ("bad value " ^ t))

let p_setcall () : Ops.setcall =
  let t = next () in
  match t with
  | "cX" -> Ops.CIfExists
  | "cN" -> Ops.CIfNotExists
  | "cK" -> Ops.CKeepTTL
  | "cAz" -> Ops.CAt None
  | _ ->
      if Str_.length t >= 2 && t.[0] = 'c' && t.[1] = 'T' then Ops.CTTL (z_of_string (Str_.sub t 2 (Str_.length t - 2)))
      else if Str_.length t >= 2 && t.[0] = 'c' && t.[1] = 'A' then Ops.CAt (Some (z_of_string (Str_.sub t 2 (Str_.length t - 2))))
      else raise (Parse_error ("bad setcall " ^ t))

let p_alg () : ImplSet.setalg =
  match next () with
  | "union" -> ImplSet.AUnion | "inter" -> ImplSet.AInter | "diff" -> ImplSet.ADiff
  | t -> raise (Parse_error ("bad set algebra " ^ t))
let p_agg () : ImplZSet.zagg =
  match next () with
  | "sum" -> ImplZSet.GSum | "min" -> ImplZSet.GMin | "max" -> ImplZSet.GMax
  | t -> raise (Parse_error ("bad aggregate " ^ t))

let p_op () : Ops.op =
  let name = next () in
  match name with
  | "KCount" -> Ops.KCount (p_list p_bytes)
  | "KDelete" -> Ops.KDelete (p_list p_bytes)
  | "KDeleteAll" -> Ops.KDeleteAll
  | "KDeleteExpired" -> Ops.KDeleteExpired (p_int ())
  | "KExists" -> Ops.KExists (p_bytes ())
  | "KExpire" -> let k = p_bytes () in Ops.KExpire (k, p_int ())
  | "KExpireAt" -> let k = p_bytes () in Ops.KExpireAt (k, p_int ())
  | "KGet" -> Ops.KGet (p_bytes ())
  | "KKeys" -> Ops.KKeys (p_bytes ())
  | "KLen" -> Ops.KLen
  | "KPersist" -> Ops.KPersist (p_bytes ())
  | "KRandom" -> Ops.KRandom (p_opt p_bytes)
  | "KRename" -> let k = p_bytes () in Ops.KRename (k, p_bytes ())
  | "KRenameNX" -> let k = p_bytes () in Ops.KRenameNX (k, p_bytes ())
  | "KScan" ->
      let c = p_int () in let p = p_bytes () in let t = p_int () in
      Ops.KScan (c, p, t, p_int ())
  | "SGet" -> Ops.SGet (p_bytes ())
  | "SGetMany" -> Ops.SGetMany (p_list p_bytes)
  | "SIncr" -> let k = p_bytes () in Ops.SIncr (k, p_int ())
  | "SIncrFloat" ->
      let k = p_bytes () in
      let d = p_float () in
      let tbl = p_list (fun () -> p_pair p_bytes (fun () -> p_opt p_float)) in
      Ops.SIncrFloat (k, d, tbl, p_bytes ())
  | "SSet" -> let k = p_bytes () in Ops.SSet (k, p_value ())
  | "SSetExpires" -> let k = p_bytes () in let v = p_value () in Ops.SSetExpires (k, v, p_int ())
  | "SSetMany" -> Ops.SSetMany (p_list (fun () -> p_pair p_bytes p_value))
  | "SSetWith" -> let k = p_bytes () in let v = p_value () in Ops.SSetWith (k, v, p_list p_setcall)
  | "LDelete" -> let k = p_bytes () in Ops.LDelete (k, p_value ())
  | "LDeleteBack" -> let k = p_bytes () in let v = p_value () in Ops.LDeleteBack (k, v, p_int ())
  | "LDeleteFront" -> let k = p_bytes () in let v = p_value () in Ops.LDeleteFront (k, v, p_int ())
  | "LGet" -> let k = p_bytes () in Ops.LGet (k, p_int ())
  | "LInsertAfter" -> let k = p_bytes () in let pv = p_value () in Ops.LInsertAfter (k, pv, p_value ())
  | "LInsertBefore" -> let k = p_bytes () in let pv = p_value () in Ops.LInsertBefore (k, pv, p_value ())
  | "LLen" -> Ops.LLen (p_bytes ())
  | "LPopBack" -> Ops.LPopBack (p_bytes ())
  | "LPopBackPushFront" -> let a = p_bytes () in Ops.LPopBackPushFront (a, p_bytes ())
  | "LPopFront" -> Ops.LPopFront (p_bytes ())
  | "LPushBack" -> let k = p_bytes () in Ops.LPushBack (k, p_value ())
  | "LPushFront" -> let k = p_bytes () in Ops.LPushFront (k, p_value ())
  | "LRange" -> let k = p_bytes () in let a = p_int () in Ops.LRange (k, a, p_int ())
  | "LSet" -> let k = p_bytes () in let i = p_int () in Ops.LSet (k, i, p_value ())
  | "LTrim" -> let k = p_bytes () in let a = p_int () in Ops.LTrim (k, a, p_int ())
  | "EAdd" -> let k = p_bytes () in Ops.EAdd (k, p_list p_value)
  | "EDelete" -> let k = p_bytes () in Ops.EDelete (k, p_list p_value)
  | "EAlg" -> let a = p_alg () in Ops.EAlg (a, p_list p_bytes)
  | "EStore" -> let a = p_alg () in let d = p_bytes () in Ops.EStore (a, d, p_list p_bytes)
  | "EExists" -> let k = p_bytes () in Ops.EExists (k, p_value ())
  | "EItems" -> Ops.EItems (p_bytes ())
  | "ELen" -> Ops.ELen (p_bytes ())
  | "EMove" -> let a = p_bytes () in let b = p_bytes () in Ops.EMove (a, b, p_value ())
  | "EPop" -> let k = p_bytes () in Ops.EPop (k, p_opt p_bytes)
  | "ERandom" -> let k = p_bytes () in Ops.ERandom (k, p_opt p_bytes)
  | "EScan" -> let k = p_bytes () in let c = p_int () in let p = p_bytes () in Ops.EScan (k, c, p, p_int ())
  | "HDelete" -> let k = p_bytes () in Ops.HDelete (k, p_list p_bytes)
  | "HExists" -> let k = p_bytes () in Ops.HExists (k, p_bytes ())
  | "HFields" -> Ops.HFields (p_bytes ())
  | "HGet" -> let k = p_bytes () in Ops.HGet (k, p_bytes ())
  | "HGetMany" -> let k = p_bytes () in Ops.HGetMany (k, p_list p_bytes)
  | "HIncr" -> let k = p_bytes () in let f = p_bytes () in Ops.HIncr (k, f, p_int ())
  | "HIncrFloat" ->
      let k = p_bytes () in let f = p_bytes () in let d = p_float () in
      let tbl = p_list (fun () -> p_pair p_bytes (fun () -> p_opt p_float)) in
      Ops.HIncrFloat (k, f, d, tbl, p_bytes ())
  | "HItems" -> Ops.HItems (p_bytes ())
  | "HLen" -> Ops.HLen (p_bytes ())
  | "HScan" -> let k = p_bytes () in let c = p_int () in let p = p_bytes () in Ops.HScan (k, c, p, p_int ())
  | "HSet" -> let k = p_bytes () in let f = p_bytes () in Ops.HSet (k, f, p_value ())
  | "HSetMany" -> let k = p_bytes () in Ops.HSetMany (k, p_list (fun () -> p_pair p_bytes p_value))
  | "HSetNX" -> let k = p_bytes () in let f = p_bytes () in Ops.HSetNX (k, f, p_value ())
  | "HValues" -> Ops.HValues (p_bytes ())
  | "ZAdd" -> let k = p_bytes () in let v = p_value () in Ops.ZAdd (k, v, p_float ())
  | "ZAddMany" -> let k = p_bytes () in Ops.ZAddMany (k, p_list (fun () -> p_pair p_value p_float))
  | "ZCount" -> let k = p_bytes () in let lo = p_float () in Ops.ZCount (k, lo, p_float ())
  | "ZDelete" -> let k = p_bytes () in Ops.ZDelete (k, p_list p_value)
  | "ZDeleteRank" -> let k = p_bytes () in let a = p_int () in Ops.ZDeleteRank (k, a, p_int ())
  | "ZDeleteScore" -> let k = p_bytes () in let lo = p_float () in Ops.ZDeleteScore (k, lo, p_float ())
  | "ZGetRank" -> let k = p_bytes () in let v = p_value () in Ops.ZGetRank (k, v, p_bool ())
  | "ZGetScore" -> let k = p_bytes () in Ops.ZGetScore (k, p_value ())
  | "ZIncr" -> let k = p_bytes () in let v = p_value () in Ops.ZIncr (k, v, p_float ())
  | "ZAlg" -> let i = p_bool () in let g = p_agg () in Ops.ZAlg (i, g, p_list p_bytes)
  | "ZStore" -> let i = p_bool () in let g = p_agg () in let d = p_bytes () in Ops.ZStore (i, g, d, p_list p_bytes)
  | "ZLen" -> Ops.ZLen (p_bytes ())
  | "ZRangeRank" -> let k = p_bytes () in let a = p_int () in let b = p_int () in Ops.ZRangeRank (k, a, b, p_bool ())
  | "ZRangeScore" ->
      let k = p_bytes () in let lo = p_float () in let hi = p_float () in let d = p_bool () in
      let off = p_int () in Ops.ZRangeScore (k, lo, hi, d, off, p_int ())
  | "ZScan" -> let k = p_bytes () in let c = p_int () in let p = p_bytes () in Ops.ZScan (k, c, p, p_int ())
  | _ -> raise (Parse_error ("unknown operation " ^ name))


(* ---------- parsing the implementation's observables (r / d lines) ---------- *)

let parse_err (t : string) : err =
  match t with
  | "!notfound" -> ENotFound
  | "!keytype" -> EKeyType
  | "!valuetype" -> EValueType
  | _ ->
      let pre p = Str_.length t >= Str_.length p && Str_.sub t 0 (Str_.length p) = p in
      let rest p = Str_.sub t (Str_.length p) (Str_.length t - Str_.length p) in
      if pre "!sql:notnull:" then ESql (SqNotNull (rest "!sql:notnull:"))
      else if pre "!sql:unique:" then ESql (SqUnique (rest "!sql:unique:"))
      else if t = "!sql:mismatch" then ESql SqMismatch
      else if t = "!sql:vacuum" then ESql SqVacuum
      else if t = "!sql:scannull" then ESql SqScanNull
      else if t = "!sql:readonly" then ESql SqReadOnly
      else ESql SqFault

let rec p_rv () : rv =
  let t = next () in
  if t = "_" then VNone
  else if t = "[" then begin
    let acc = ref [] in
    while peek () <> "]" do acc := p_rv () :: !acc done;
    ignore (next ()); VL (L.rev !acc)
  end else if t = "{" then begin
    let acc = ref [] in
    while peek () <> "}" do acc := p_rv () :: !acc done;
    ignore (next ()); VU (L.rev !acc)
  end else if t = "b0" then VB false
  else if t = "b1" then VB true
  else if t <> "" && t.[0] = 'i' then VI (z_of_string (tail1 t))
  else if t <> "" && t.[0] = 's' then VS (string_of_hex (tail1 t))
  else if t <> "" && t.[0] = 'f' then VF (Float64.of_float (float_of_bits (tail1 t)))
  else if t <> "" && t.[0] = '!' then VE (parse_err t)
  else raise (Parse_error ("bad result token " ^ t))

let p_out () : out =
  match next () with
  | "ok" -> { o_val = p_rv (); o_err = None }
  | "err" -> let e = parse_err (next ()) in { o_val = p_rv (); o_err = Some e }
  | t -> raise (Parse_error ("bad result head " ^ t))

(* results of a block: outs separated by ";" *)
let p_outs () : out list =
  let acc = ref [] in
  (try
     while true do
       acc := p_out () :: !acc;
       (match !toks with
        | ";" :: r -> toks := r
        | [] -> raise Exit
        | t :: _ -> raise (Parse_error ("expected ; got " ^ t)))
     done
   with Exit -> ());
  L.rev !acc

let p_optz t = if t = "_" then None else Some (z_of_string t)
let unx (t : string) : string = if t <> "" && t.[0] = 'x' then string_of_hex (tail1 t) else raise (Parse_error ("dump: bad bytes " ^ t))

(* a dump line: "K (..) (..) | S (..) | L (..) | E (..) | H (..) | Z (..)" *)
let parse_dump () : db =
  let section () : string list list =
    (* rows until "|" or end *)
    let rows = ref [] in
    let continue_ = ref true in
    while !continue_ do
      match !toks with
      | [] -> continue_ := false
      | "|" :: r -> toks := r; continue_ := false
      | t :: r ->
          toks := r;
          (* t starts with "(" ; collect until token ending with ")" *)
          let fields = ref [] in
          let cur = ref t in
          let fin = ref false in
          while not !fin do
            let c = !cur in
            let c = if Str_.length c > 0 && c.[0] = '(' then Str_.sub c 1 (Str_.length c - 1) else c in
            if Str_.length c > 0 && c.[Str_.length c - 1] = ')' then begin
              fields := Str_.sub c 0 (Str_.length c - 1) :: !fields; fin := true
            end else begin
              fields := c :: !fields; cur := next ()
            end
          done;
          rows := L.rev !fields :: !rows
    done;
    L.rev !rows in
  let expect h = let t = next () in if t <> h then raise (Parse_error ("dump: expected " ^ h ^ " got " ^ t)) in
  expect "K";
  let ks = section () in expect "S";
  let ss = section () in expect "L";
  let ls = section () in expect "E";
  let es = section () in expect "H";
  let hs = section () in expect "Z";
  let zs = section () in
  let z = z_of_string in
  let cnt = ref 0.0 in
  { rkey = L.map (function
        | [id; key; ty; ver; et; mt; ln] ->
            { k_id = z id; k_key = unx key; k_type = z ty; k_ver = z ver; k_etime = p_optz et; k_mtime = z mt; k_len = p_optz ln }
        | _ -> raise (Parse_error "dump: bad K row")) ks;
    rstring = L.map (function [kid; v] -> { s_kid = z kid; s_val = unx v } | _ -> raise (Parse_error "dump: bad S row")) ss;
    rlist = L.map (function [kid; v] -> cnt := !cnt +. 1.0; { l_kid = z kid; l_pos = Float64.of_float !cnt; l_elem = unx v } | _ -> raise (Parse_error "dump: bad L row")) ls;
    rset = L.map (function [rid; kid; v] -> { e_rid = z rid; e_kid = z kid; e_elem = unx v } | _ -> raise (Parse_error "dump: bad E row")) es;
    rhash = L.map (function [rid; kid; f; v] -> { h_rid = z rid; h_kid = z kid; h_field = unx f; h_val = unx v } | _ -> raise (Parse_error "dump: bad H row")) hs;
    rzset = L.map (function [rid; kid; v; sc] -> { z_rid = z rid; z_kid = z kid; z_elem = unx v; z_score = Float64.of_float (float_of_bits sc) } | _ -> raise (Parse_error "dump: bad Z row")) zs;
    fk_on = true }

(* ---------- the comparison with the specification ---------- *)

let opt_err_str = function None -> "-" | Some e -> err_str e

(* verdict for one operation result *)
let cmp_result (o : Ops.op) (mode : Spec.cmpmode) (ri : out) (rs : out) : string option =
  match mode with
  | Spec.CmpFull ->
      let pi = rv_str (Spec.proj_result o ri.o_val) and ps = rv_str rs.o_val in
      let ei = opt_err_str ri.o_err and es = opt_err_str rs.o_err in
      if pi = ps && ei = es then None
      else Some (Printf.sprintf "result impl=%s/%s spec=%s/%s" ei pi es ps)
  | Spec.CmpState | Spec.CmpNone -> None

let () =
  let d = ref Db.empty_db in            (* faithful model state *)
  let real = ref Db.empty_db in         (* the implementation's state, parsed from its dumps *)
  let s = ref ([] : Spec.sstate) in     (* specification state *)
  let obs_r : out list option ref = ref None in
  let obs_d : db option ref = ref None in
  let pending : (coq_Z * bool * int * Ops.op list) option ref = ref None in
  (* verdict of the comparison of the IMPLEMENTATION's observables with the specification *)
  let finish_step now (rd' : db) (s' : Spec.sstate) (verdict : string option) (skip : string option) =
    let a = sstate_str (Abs.abs now rd') in
    let b = sstate_str (Spec.spurge now s') in
    (match skip with
     | Some why ->
         if Str_.length why > 5 && Str_.sub why 0 5 = "EXCL " then
           Printf.printf "V excl %s\n" (Str_.sub why 5 (Str_.length why - 5))
         else Printf.printf "V skip %s\n" why;
         s := Abs.abs now rd'
     | None ->
         match verdict with
         | Some v -> Printf.printf "V BAD %s\n" v; s := Abs.abs now rd'
         | None ->
             if a = b then (Printf.printf "V ok\n"; s := s')
             else (Printf.printf "V BAD state impl=[%s] spec=[%s]\n" a b; s := Abs.abs now rd'))
  in
  let advance (md' : db) (rd' : db) =
    (* keep the model in step with the implementation once they have diverged *)
    d := (if dump_str md' = dump_str rd' then md' else rd');
    real := rd';
    obs_r := None; obs_d := None
  in
  let run_block now stop ops =
    let (md', mrs) = Ops.exec_update now ops stop !d in
    Printf.printf "R %s\n" (Str_.concat " ; " (L.map out_str mrs));
    Printf.printf "D %s\n" (dump_str md');
    let rrs = match !obs_r with Some l -> l | None -> mrs in
    let rd' = match !obs_d with Some x -> x | None -> md' in
    let pre = !real in
    let (s', ss) = Spec.spec_update now ops stop !s in
    let skip =
      match (match Excl.excluded_block now pre ops with Some n -> Some n | None -> Excl.excluded_block now !d ops) with
      | Some name -> Some ("EXCL " ^ name)
      | None ->
      if L.exists (fun o -> Spec.spec_mode true o = Spec.CmpNone) ops then Some "storage-level operation in block"
      else if (not stop) && L.exists (fun (r : out) -> r.o_err <> None) rrs then Some "block continued after an error"
      else None in
    let verdict =
      if L.length rrs <> L.length ss then Some "result count differs"
      else
        let rec go os ri rs_ = match os, ri, rs_ with
          | o :: os', a :: ri', b :: rs' ->
              (match cmp_result o (Spec.spec_mode true o) a b with Some v -> Some v | None -> go os' ri' rs')
          | _ -> None in
        go ops rrs ss in
    finish_step now rd' s' verdict skip;
    let bad = ref [] in
    if not (Inv.inv_ok rd') then bad := "inv" :: !bad;
    if not (Inv.block_no_trace now ops stop !d) then bad := "trace" :: !bad;
    if not (Inv.block_meta_ok now ops stop !d) then bad := "meta" :: !bad;
    Printf.printf "N %s\n" (if !bad = [] then "ok" else Str_.concat "," !bad);
    advance md' rd'
  in
  (try
     while true do
       let line = input_line stdin in
       if line <> "" then begin
         toks := L.filter (fun t -> t <> "") (Str_.split_on_char ' ' line);
         (try
            match next () with
            | "H" ->
                d := Db.empty_db; real := Db.empty_db; s := []; pending := None; obs_r := None; obs_d := None;
                Printf.printf "H %s\n" (Str_.concat " " !toks)
            | "S" ->
                (* adopt a given state (a dump of the implementation): "S <now> <dump>" *)
                let now = z_of_string (next ()) in
                let st = parse_dump () in
                d := st; real := st; s := Abs.abs now st; obs_r := None; obs_d := None;
                Printf.printf "N %s\n" (if Inv.inv_ok st then "ok" else "inv")
            | "r" -> obs_r := Some (p_outs ())
            | "d" -> obs_d := Some (parse_dump ())
            | "O" ->
                let now = z_of_string (next ()) in
                let o = p_op () in
                let (md', mr) = Ops.exec_db now o !d in
                Printf.printf "R %s\n" (out_str mr);
                Printf.printf "D %s\n" (dump_str md');
                let rr = match !obs_r with Some (x :: _) -> x | _ -> mr in
                let rd' = match !obs_d with Some x -> x | None -> md' in
                let pre = !real in
                let mode = Spec.spec_mode false o in
                let (s', rs) = Spec.spec_step now o !s in
                let skip =
                  (* the finding about list positions depends on the positions themselves, which the
                     dumps do not carry (they list elements in order): it is evaluated on the faithful
                     model's pre-state, which the correspondence check keeps equal to the real one *)
                  match (match Excl.excluded now pre o with Some n -> Some n | None -> Excl.excluded now !d o) with
                  | Some name -> Some ("EXCL " ^ name)
                  | None -> if mode = Spec.CmpNone then Some "storage-level operation" else None in
                finish_step now rd' s' (cmp_result o mode rr rs) skip;
                let bad = ref [] in
                if not (Inv.inv_ok rd') then bad := "inv" :: !bad;
                if not (Inv.no_trace_ok o rr pre rd') then bad := "trace" :: !bad;
                if not (Inv.meta_ok now pre rd') then bad := "meta" :: !bad;
                Printf.printf "N %s\n" (if !bad = [] then "ok" else Str_.concat "," !bad);
                advance md' rd'
            | "T" ->
                let now = z_of_string (next ()) in
                let stop = (next () = "1") in
                let n = int_of_string (next ()) in
                if n = 0 then run_block now stop [] else pending := Some (now, stop, n, [])
            | "o" ->
                (match !pending with
                 | Some (now, stop, n, acc) ->
                     let o = p_op () in
                     let acc = o :: acc in
                     if L.length acc = n then (pending := None; run_block now stop (L.rev acc))
                     else pending := Some (now, stop, n, acc)
                 | None -> raise (Parse_error "o line outside a block"))
            | "#" -> ()
            | t -> raise (Parse_error ("unknown line kind " ^ t))
          with
          | Parse_error m -> Printf.printf "E parse error: %s in: %s\n" m line
          | Failure m -> Printf.printf "E failure: %s in: %s\n" m line
          | Invalid_argument m -> Printf.printf "E invalid argument: %s in: %s\n" m line)
       end
     done
   with End_of_file -> ());
  flush stdout
