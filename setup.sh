#!/bin/sh
# Build the whole framework from files on disk (offline): the Coq development
# (full .vo build), the extracted model driver, the Go harness against /repo.
set -e
cd "$(dirname "$0")"
export GOFLAGS=-mod=mod GOPROXY=off GOSUMDB=off GOTOOLCHAIN=local CGO_ENABLED=1
( cd coq && coq_makefile -f _CoqProject -o Makefile && timeout 3000 make -j16 > /dev/null )
./ocaml/build.sh
./harness/build.sh
mkdir -p evidence replays
echo "setup done"
