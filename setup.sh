#!/bin/sh
# Build the whole framework from files on disk (offline): the Go harness against /repo, the
# model parts generated from /repo's source (parse specs, writer programs), the Coq development
# (full .vo build), the extracted model driver.
set -e
cd "$(dirname "$0")"
export GOFLAGS=-mod=mod GOPROXY=off GOSUMDB=off GOTOOLCHAIN=local CGO_ENABLED=1
./harness/build.sh
mkdir -p coq/gen evidence replays
./build/srcfacts -coq coq/gen/ParseSpecs.v > /dev/null
./build/wprogs -repo /repo -out coq/gen/WriterProgs.v
( cd coq && coq_makefile -f _CoqProject -o Makefile && timeout 3000 make -j16 > /dev/null )
./ocaml/build.sh
echo "setup done"
